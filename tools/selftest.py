"""setup_cmd: nothing to build; byte-compile-free import of the framework, seam self-test and
proof that the driver owns every process-wide mutable global of spydrnet."""
import os, sys
os.environ.setdefault("PYTHONHASHSEED", "0")
sys.dont_write_bytecode = True
sys.path.insert(0, os.path.dirname(os.path.dirname(os.path.abspath(__file__))))
from vlib import core
s = core.sdn()
core.capture_baseline()
before = core.mutable_globals_snapshot()
n = s.Netlist(name="x"); l = n.create_library(name="l"); d = l.create_definition(name="d")
d.create_port(name="p", pins=2); d.create_cable(name="c", wires=2); n.top_instance = d
from spydrnet.uniquify import uniquify
from spydrnet.flatten import flatten
uniquify(n); flatten(n)
core.reset_world()
after = core.mutable_globals_snapshot()
diff = {k: (before.get(k), after.get(k)) for k in set(before) | set(after) if before.get(k) != after.get(k)}
assert not diff, "process-wide state not reset by the driver: %r" % diff
import glob, importlib
for f in sorted(glob.glob(os.path.join(core.VERIF, "checks", "c*.py"))):
    importlib.import_module("checks." + os.path.basename(f)[:-3])
print("selftest ok: spydrnet from", os.path.dirname(s.__file__), "globals tracked:", len(before))
