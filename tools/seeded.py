"""Validate and run seeded property-breaking changes kept under /verif/seeded/<id>/.

  seeded.py import <src dir> <id> <property>   copy patch.diff/demo.py/notes.txt, write meta.json skeleton
  seeded.py validate <id>                      scratch worktree: tests still pass, demo fails with / passes without
  seeded.py detect <id> [--tier quick]         apply to /repo, run the property's check, revert; prints verdict
"""
import json, os, shutil, subprocess, sys, tempfile
V = os.path.dirname(os.path.dirname(os.path.abspath(__file__)))
PY = "/venv/bin/python"


def sh(cmd, **kw):
    return subprocess.run(cmd, shell=True, capture_output=True, text=True, **kw)


def validate(sid):
    d = os.path.join(V, "seeded", sid)
    meta = json.load(open(os.path.join(d, "meta.json")))
    wt = tempfile.mkdtemp(prefix="seedwt_", dir="/tmp")
    os.rmdir(wt)
    r = sh("git -C /repo worktree add -q --detach %s HEAD" % wt)
    assert r.returncode == 0, r.stderr
    try:
        clean = sh("cd %s && PYTHONPATH=%s %s %s/demo.py" % (wt, wt, PY, d))
        ap = sh("git -C %s apply %s/patch.diff" % (wt, d))
        assert ap.returncode == 0, "patch does not apply: " + ap.stderr
        withp = sh("cd %s && PYTHONPATH=%s %s %s/demo.py" % (wt, wt, PY, d))
        t = sh("cd %s && %s -m pytest -q -rf -p no:cacheprovider --timeout=900 --continue-on-collection-errors tests 2>&1 | grep -E '^FAILED|passed|failed' | tail -8" % (wt, PY))
        failed = [l for l in t.stdout.splitlines() if l.startswith("FAILED")]
        res = {"demo_exit_clean": clean.returncode, "demo_exit_with_patch": withp.returncode,
               "tests_tail": t.stdout.strip().splitlines()[-1:], "tests_failed_other_than_baseline": failed}
        meta["validated"] = res
        meta["valid"] = clean.returncode == 0 and withp.returncode != 0 and not failed
        json.dump(meta, open(os.path.join(d, "meta.json"), "w"), indent=1)
        print(sid, "VALID" if meta["valid"] else "INVALID", res)
    finally:
        sh("git -C /repo worktree remove --force %s" % wt)


def detect(sid, tier="quick"):
    """Run the property's checks against a scratch worktree of /repo carrying the change
    (VERIF_REPO points the checks at it, VERIF_OUT keeps evidence/replays out of /verif)."""
    d = os.path.join(V, "seeded", sid)
    meta = json.load(open(os.path.join(d, "meta.json")))
    wt = tempfile.mkdtemp(prefix="seedwt_", dir="/tmp")
    os.rmdir(wt)
    out_dir = tempfile.mkdtemp(prefix="seedout_", dir="/tmp")
    r = sh("git -C /repo worktree add -q --detach %s HEAD" % wt)
    assert r.returncode == 0, r.stderr
    try:
        ap = sh("git -C %s apply %s/patch.diff" % (wt, d))
        assert ap.returncode == 0, "patch does not apply: " + ap.stderr
        out = {}
        other = os.environ.get("SEEDED_CHECKS")   # run other properties' checks against this change (not recorded)
        for prop in (other.split(",") if other else meta["checks"]):
            r = sh("cd %s && VERIF_REPO=%s VERIF_OUT=%s ./vcheck %s --tier %s" % (V, wt, out_dir, prop, tier))
            viol = [l for l in r.stdout.splitlines() if l.startswith("VIOLATION")]
            sigs = [l.strip() for l in r.stdout.splitlines() if l.strip().startswith("signature:")]
            out[prop] = {"exit": r.returncode, "violations": len(viol), "signatures": sigs[:4]}
        if other:
            print(sid, "by", other, json.dumps(out)[:500])
            return
        meta.setdefault("detected", {})[tier] = out
        meta.setdefault("first_verdict", "caught" if any(v["exit"] == 1 for v in out.values()) else "missed")
        meta["caught"] = any(v["exit"] == 1 for t in meta["detected"].values() for v in t.values())
        json.dump(meta, open(os.path.join(d, "meta.json"), "w"), indent=1)
        print(sid, "CAUGHT" if any(v["exit"] == 1 for v in out.values()) else "MISSED", json.dumps(out)[:500])
    finally:
        sh("git -C /repo worktree remove --force %s" % wt)
        shutil.rmtree(out_dir, ignore_errors=True)


def imp(src, sid, prop):
    d = os.path.join(V, "seeded", sid)
    os.makedirs(d, exist_ok=True)
    for f in ("patch.diff", "demo.py", "notes.txt"):
        shutil.copy(os.path.join(src, f), os.path.join(d, f))
    notes = open(os.path.join(d, "notes.txt")).read()
    json.dump({"id": sid, "property": prop, "checks": [prop], "origin": "fresh sub-agent given only the property text and a scratch worktree",
               "needs_to_manifest": "see notes.txt", "notes_head": notes[:600]}, open(os.path.join(d, "meta.json"), "w"), indent=1)


def wave_of(sid):
    parts = sid.split("-")
    return int(parts[1][1:]) if len(parts) == 3 else 1


def readme():
    rows = []
    for sid in sorted(os.listdir(os.path.join(V, "seeded"))):
        mp = os.path.join(V, "seeded", sid, "meta.json")
        if not os.path.exists(mp):
            continue
        m = json.load(open(mp))
        det = (m.get("detected") or {}).get("quick") or {}
        sig = next((s_.replace("signature: ", "") for v in det.values() for s_ in v.get("signatures", ())), "")
        exits = [v["exit"] for v in det.values()]
        verdict = "caught" if 1 in exits else ("harness-error" if any(e not in (0, 1) for e in exits) else "missed")
        if m.get("out_of_scope") and verdict == "missed":
            verdict = "not claimed (outside the property as stated, see meta.json)"
        rows.append((sid, m["property"], wave_of(sid), "yes" if m.get("valid") else "NO", verdict, m.get("first_verdict", "") if wave_of(sid) >= 4 else "", sig))
    o = ["# Seeded property-breaking changes", "",
         "Each directory holds `patch.diff` (the change to byuccl/spydrnet), `demo.py` (exits 1 with the change, 0 without),",
         "`notes.txt` (what the change is and what it needs in order to manifest, written by the sub-agent that produced it from",
         "the property text alone) and `meta.json` (what was run here: `tools/seeded.py validate` - the repository's own tests",
         "still pass, the demo fails with / passes without the change - and `tools/seeded.py detect` - the property's quick check",
         "run against a scratch worktree carrying the change).", "",
         "Ids: wave 1 `<prop>-mK`, later waves `<prop>-w<N>-mK`.  \"verdict\" is that of the *current* checks (last `detect` run);",
         "\"at first\" is the verdict of the checks as they stood when the change arrived (recorded from wave 4 on; the counts for",
         "the earlier waves are in DESIGN.md 9.7, together with what each miss led to).  Regenerate with `tools/seeded.py readme`.", "",
         "| id | property | wave | valid | verdict | at first | first signature reported |", "|---|---|---|---|---|---|---|"]
    for r in rows:
        o.append("| %s | %s | %d | %s | %s | %s | %s |" % r)
    by = {}
    for r in rows:
        b = by.setdefault(r[2], [0, 0, 0])
        b[0] += 1
        b[1] += r[4] == "caught"
        b[2] += r[5] == "caught"
    o += ["", "| wave | changes | caught now | caught at first (where recorded) |", "|---|---|---|---|"]
    for wv in sorted(by):
        o.append("| %d | %d | %d | %s |" % (wv, by[wv][0], by[wv][1], by[wv][2] if wv >= 4 else "see DESIGN.md 9.7"))
    open(os.path.join(V, "seeded", "README.md"), "w").write("\n".join(o) + "\n")
    print("seeded/README.md: %d changes, %d caught" % (len(rows), sum(r[4] == "caught" for r in rows)))


if __name__ == "__main__":
    cmd = sys.argv[1]
    if cmd == "import":
        imp(sys.argv[2], sys.argv[3], sys.argv[4])
    elif cmd == "validate":
        validate(sys.argv[2])
    elif cmd == "readme":
        readme()
    elif cmd == "detect":
        detect(sys.argv[2], sys.argv[4] if len(sys.argv) > 4 else "quick")
