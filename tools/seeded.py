"""Validate and run seeded property-breaking changes kept under /verif/seeded/<id>/.

  seeded.py import <src dir> <id> <property>   copy patch.diff/demo.py/notes.txt, write meta.json skeleton
  seeded.py validate <id>                      scratch worktree: tests still pass, demo fails with / passes without
  seeded.py detect <id> [--tier quick]         apply to /repo, run the property's check, revert; prints verdict
"""
import json, os, shutil, subprocess, sys, tempfile
V = os.path.dirname(os.path.dirname(os.path.abspath(__file__)))
PY = "/venv/bin/python"


def sh(cmd, **kw):
    return subprocess.run(cmd, shell=True, capture_output=True, text=True, **kw)


def validate(sid):
    d = os.path.join(V, "seeded", sid)
    meta = json.load(open(os.path.join(d, "meta.json")))
    wt = tempfile.mkdtemp(prefix="seedwt_", dir="/tmp")
    os.rmdir(wt)
    r = sh("git -C /repo worktree add -q --detach %s HEAD" % wt)
    assert r.returncode == 0, r.stderr
    try:
        clean = sh("cd %s && PYTHONPATH=%s %s %s/demo.py" % (wt, wt, PY, d))
        ap = sh("git -C %s apply %s/patch.diff" % (wt, d))
        assert ap.returncode == 0, "patch does not apply: " + ap.stderr
        withp = sh("cd %s && PYTHONPATH=%s %s %s/demo.py" % (wt, wt, PY, d))
        t = sh("cd %s && %s -m pytest -q -rf -p no:cacheprovider --timeout=900 --continue-on-collection-errors tests 2>&1 | grep -E '^FAILED|passed|failed' | tail -8" % (wt, PY))
        failed = [l for l in t.stdout.splitlines() if l.startswith("FAILED")]
        res = {"demo_exit_clean": clean.returncode, "demo_exit_with_patch": withp.returncode,
               "tests_tail": t.stdout.strip().splitlines()[-1:], "tests_failed_other_than_baseline": failed}
        meta["validated"] = res
        meta["valid"] = clean.returncode == 0 and withp.returncode != 0 and not failed
        json.dump(meta, open(os.path.join(d, "meta.json"), "w"), indent=1)
        print(sid, "VALID" if meta["valid"] else "INVALID", res)
    finally:
        sh("git -C /repo worktree remove --force %s" % wt)


def detect(sid, tier="quick"):
    """Run the property's checks against a scratch worktree of /repo carrying the change
    (VERIF_REPO points the checks at it, VERIF_OUT keeps evidence/replays out of /verif)."""
    d = os.path.join(V, "seeded", sid)
    meta = json.load(open(os.path.join(d, "meta.json")))
    wt = tempfile.mkdtemp(prefix="seedwt_", dir="/tmp")
    os.rmdir(wt)
    out_dir = tempfile.mkdtemp(prefix="seedout_", dir="/tmp")
    r = sh("git -C /repo worktree add -q --detach %s HEAD" % wt)
    assert r.returncode == 0, r.stderr
    try:
        ap = sh("git -C %s apply %s/patch.diff" % (wt, d))
        assert ap.returncode == 0, "patch does not apply: " + ap.stderr
        out = {}
        for prop in meta["checks"]:
            r = sh("cd %s && VERIF_REPO=%s VERIF_OUT=%s ./vcheck %s --tier %s" % (V, wt, out_dir, prop, tier))
            viol = [l for l in r.stdout.splitlines() if l.startswith("VIOLATION")]
            sigs = [l.strip() for l in r.stdout.splitlines() if l.strip().startswith("signature:")]
            out[prop] = {"exit": r.returncode, "violations": len(viol), "signatures": sigs[:4]}
        meta.setdefault("detected", {})[tier] = out
        meta["caught"] = any(v["exit"] == 1 for t in meta["detected"].values() for v in t.values())
        json.dump(meta, open(os.path.join(d, "meta.json"), "w"), indent=1)
        print(sid, "CAUGHT" if any(v["exit"] == 1 for v in out.values()) else "MISSED", json.dumps(out)[:500])
    finally:
        sh("git -C /repo worktree remove --force %s" % wt)
        shutil.rmtree(out_dir, ignore_errors=True)


def imp(src, sid, prop):
    d = os.path.join(V, "seeded", sid)
    os.makedirs(d, exist_ok=True)
    for f in ("patch.diff", "demo.py", "notes.txt"):
        shutil.copy(os.path.join(src, f), os.path.join(d, f))
    notes = open(os.path.join(d, "notes.txt")).read()
    json.dump({"id": sid, "property": prop, "checks": [prop], "origin": "fresh sub-agent given only the property text and a scratch worktree",
               "needs_to_manifest": "see notes.txt", "notes_head": notes[:600]}, open(os.path.join(d, "meta.json"), "w"), indent=1)


if __name__ == "__main__":
    cmd = sys.argv[1]
    if cmd == "import":
        imp(sys.argv[2], sys.argv[3], sys.argv[4])
    elif cmd == "validate":
        validate(sys.argv[2])
    elif cmd == "detect":
        detect(sys.argv[2], sys.argv[4] if len(sys.argv) > 4 else "quick")
