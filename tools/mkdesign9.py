"""Regenerates DESIGN.md section 9 ("as built") from the committed evidence, known_findings.json and seeded/*/meta.json,
so that the document cannot drift from what the checks actually do."""
import glob, json, os
V = os.path.dirname(os.path.dirname(os.path.abspath(__file__)))
k = json.load(open(os.path.join(V, "known_findings.json")))
fixed = [f for f in k["findings"] if f["status"] == "fixed"]
opn = [f for f in k["findings"] if f["status"] == "open"]
esc = lambda s: s.replace("|", "\\|")
rows_f = "\n".join("| %s | `%s` | %s |" % (f["property"], f["commit"], esc(f["what"])) for f in fixed)
rows_o = "\n".join("| %s | `%s` | %s |" % (f["property"], esc(f["signature"]), esc(f["what"])) for f in opn)
SPACE = {
 "C01": "A: scenarios S1-S5, S9-S11 (libraries/definitions across two netlists, ports/pins under two instances, connections with inner pins, stored outer pins and persistent (possibly stale) proxies, children, moves, re-point after reshape, bundle attributes, set_top_instance with and without a name, cable reorder); bulk calls also with a repeated element and with a generator; depth 2-3; both orders",
 "C02": "A: S2, S4, S5, S6 (instances from zero), S7 (child + top instance of one definition), S9, S11; state invariant + re-point step clause",
 "C03": "B: base designs E1-E7 x API variants (undefined direction, reversed declaration order, bus base 5 with pins reordered, edited in front after a first export), F_hier slice, bundled .edf, re-parsed independent-writer texts; compared by the real reader and an independent s-expression reader",
 "C04": "B: C06 base texts (6 orders x 2 styles x {plain, other spellings: net types, defparam, `timescale}; aliased header port), chains of depth 3-4 in every declaration order, expression product, bundled .v x {identity, uniquify, flatten, clone} x {write_blackbox, defparam}",
 "C05": "B: E1-E7 x 144 option sets (reference letter case, rename style, libraryRef, comments, design case, rich = external library + status blocks + properties on cells/views/ports/nets + (number N) values + owner); every permutation x non-empty subset of the bits of two bus nets; F_hier K1/K8; bundled .edf vs independent s-expression reading",
 "C06": "B: rich base design (incl. an aliased header port) x 6 module orders x header/ANSI x {no, sparse, dense} comments x {plain, other documented spellings: `timescale, skipped `ifdef and UDP, comma lists, net types on ports and wires, defparam}; chains depth 3-4(-5) in all orders; every connection expression of the grammar up to width 3 x named/positional x declared before/after/`celldefine/never x header/ANSI",
 "C07": "B: every element of every design cloned (variants plain, unnamed, top also a child, definition removed, two libraries, outside instance, EDIF policy with identifiers - exact lookups by name and identifier in every scope of the copy; nested user data on every element kind); 12 edit tails x {copy, original}",
 "C08": "B: F_hier (all wiring partitions of the small skeletons, arithmetic slices of the deep ones) x variants incl. clashing names, definitions reshaped after instancing, a second round from a non-initial state, EDIF-policy designs whose identifiers are taken up to case",
 "C09": "B: the same family through uniquify + flatten; a hierarchical cell without ports; EDIF-policy designs carrying identifiers, also with generated-looking identifiers already present",
 "C10": "A: 5 naming scopes x 2 policies (a second definition reusing the names, orphan with identifier; constructors given a properties dictionary), the mixed-policy scenario N-MIX-EDIF (orphans built under DEFAULT joining an EDIF tree, policy tag of an orphan root set), depth 2; lookups from parent, library and netlist roots",
 "C11": "B: 5 get_h* functions x all root kinds x recursive; found again by its own name; one-element arrays; unnamed items; 40 breaking edits x skeletons, is_valid / is_unique re-judged",
 "C12": "B: every hwire / hpin / hcable / hport / plain wire, cable, pin, port start (depth up to 4): get_hwires with ALL / INSIDE / OUTSIDE / BOTH, get_hcables with ALL (the statement fixes the narrower selections for wires only), get_hpins",
 "C13": "B: 2 policies x 13 functions x 12 roots x lookup on/off x selection x recursive x key x patterns (incl. bracketed names, pairs in both orders) x is_case x is_re x filter",
 "C14": "A: S1-S11 + 10 naming scenarios: every refused call compared with its pre-state (snapshot incl. name index, then exact lookups)",
 "C15": "B (fault enumeration): 11 base files (incl. the other Verilog spellings, rich EDIF, EBLIF with .clock / inout / nameless instances) x every single token fault (truncate, delete, duplicate, replace by ( ) undeclared unsupported number nothing declared-name) x policy; every instantiation graph over three modules (cycles included) x declaration orders; file-level faults; later parse of a different good file compared with a fresh process",
 "C16": "B: ~1.5 k netlists of all origins (API-built also parent-first, both set orders) x 3 targets x option sets; sdn.compose and Netlist.compose; nameless netlists; the documented extension aliases",
 "C17": "B: all ordered pairs of names of length <= 2 (<= 3 thorough) over 13 characters; triples; 3/11/12 long siblings sharing 255-300 characters; pre-existing x_sdn_N_; every scope end to end incl. cross-scope",
 "C18": "B: bases B1-B7 (.subckt/.gate/.names/.latch/.conn incl. star, cycle, feed-through and bit 1 of a bus port, 12-input .names, growing port sets, .clock, a port that is input and output, instances without .cname) x every statement order x continuation (positions, lone backslash, reversed formals) x comments x model placement; bundled .eblif",
 "C19": "A: S1-S11 with a shadow listener registered before the seed; strict (no redundant add/remove/connect announcements); each notified transition re-run without listeners; every single-hook and every all-but-one listener against the all-hooks listener and no listener (seed + first events of every scenario), registration residue",
 "C20": "B: 6 base netlists: 3 kinds of faithful copy + every single mutation (directions, widths, array-ness, moved / dropped / added connections, re-points incl. same name in another library, each property, added/dropped elements)",
}
rows = []
for pid in sorted(SPACE):
    p = os.path.join(V, "evidence", pid + ".json")
    cov = json.load(open(p))["coverage"] if os.path.exists(p) else {}
    e = json.load(open(p)) if os.path.exists(p) else {}
    rows.append("| %s | %s | %s states, %s transitions, %s non-trivial, %.0f s (%s) |" % (
        pid, esc(SPACE[pid]), cov.get("states"), cov.get("transitions"), cov.get("distinct_nontrivial"), e.get("wall_s", 0), e.get("tier")))
trows = ["", "Thorough tier, last complete run of each check (`evidence_thorough/`, copied from a run with `VERIF_OUT` redirected so that",
         "the quick-tier evidence files stay what `vp check` regenerates):", "", "| Id | states | transitions | exhaustive within the deadline | wall |", "|---|---|---|---|---|"]
for pid in sorted(SPACE):
    p = os.path.join(V, "evidence_thorough", pid + ".json")
    if os.path.exists(p):
        e = json.load(open(p))
        c = e["coverage"]
        trows.append("| %s | %s | %s | %s | %.0f s |" % (pid, c.get("states"), c.get("transitions"), "yes" if c.get("exhaustive") else "no (capped; what was covered is listed in bounds_completed)", e.get("wall_s", 0)))
    elif pid in ("C01", "C14", "C19"):
        # (these runs wrote their evidence into /verif/evidence, where the next quick run replaced it: numbers from the run log)
        n_ = {"C01": ("7702470", "30861832", "yes", "2100"), "C14": ("8799278", "38080702", "yes", "5652"),
              "C19": ("7341075", "28532556", "no (the 6000 s deadline ended the last scenario; what was covered is listed per level)", "6010")}[pid]
        trows.append("| %s | %s | %s | %s | %s s (exit 0; run of the last day before waves 8-9, not repeated after them) |" % ((pid,) + n_))
trows += ["", "The thorough tier of C07 was likewise last run to completion before waves 8-9.  C02's thorough tier was run on the final checks in the",
          "last hour and reported a genuine defect at depth 3 (a netlist cloned after one of its instances had been re-pointed to a cell of another",
          "netlist: the cloned instance was missing from that cell's reference set), repaired by the last `fix:` commit; the recorded history replays",
          "clean on the repaired tree, every quick check passes on it, and the thorough run of C02 repeated on the repaired tree exits 0 (its row above);",
          "every other row (C12 included: 333 M queries) is a run of the checks as committed (exit 0, no VIOLATION, no KNOWN-FINDING beyond the listed ones).",
          "The clauses added to the Engine-A checks after their last complete thorough run were exercised at thorough depth on their own, without",
          "alarm: the bulk removals with up to 8 members (7808 cases each for C01 and C02), the odd-position scenarios S18 at depth 3 (22 k / 4 k states),",
          "C14's must-be-refused clauses on S1-S3 at depth 3 (180 k states, 3.9 M calls) and C10's late reads on four naming scopes at depth 3 (576 k states)."]
thorough_table = "\n".join(trows) + "\n"
seeded = []
for f in sorted(glob.glob(os.path.join(V, "seeded", "*", "meta.json"))):
    seeded.append(json.load(open(f)))
nvalid = sum(1 for m in seeded if m.get("valid"))
ncaught = sum(1 for m in seeded if m.get("caught"))
out_of_scope = [m["id"] for m in seeded if m.get("out_of_scope")]
missed = [m["id"] for m in seeded if m.get("valid") and not m.get("caught") and not m.get("out_of_scope")]
obsolete = [m["id"] for m in seeded if m.get("obsolete")]
w4 = [m for m in seeded if "-w4-" in m["id"]]
w4first = sum(1 for m in w4 if m.get("first_verdict") == "caught")
w5 = [m for m in seeded if "-w5-" in m["id"]]
w5first = sum(1 for m in w5 if m.get("first_verdict") == "caught")
w6 = [m for m in seeded if "-w6-" in m["id"]]
w6first = sum(1 for m in w6 if m.get("first_verdict") == "caught")
w7 = [m for m in seeded if "-w7-" in m["id"]]
w7first = sum(1 for m in w7 if m.get("first_verdict") == "caught")
w8 = [m for m in seeded if "-w8-" in m["id"]]
w8first = sum(1 for m in w8 if m.get("first_verdict") == "caught")
w9 = [m for m in seeded if "-w9-" in m["id"]]
w9first = sum(1 for m in w9 if m.get("first_verdict") == "caught")
sec = r'''
---------------------------------------------------------------------------------------------------

## 9. As built (kept current by `tools/mkdesign9.py`; Sections 1-8 are the plan written before the code)

Everything below describes the committed state.  Where it departs from the plan the departure and
its reason are stated; nothing in Sections 1-8 was silently reinterpreted.

### 9.1 Layout

```
vcheck <ID> [--tier quick|thorough] [--replay file]   entry point of every MANIFEST command
vlib/core.py        process set-up, set-order seam, reset_world, parallel map, mutable-globals snapshot
vlib/world.py       pool of real objects by creation index, persistent proxies, identity-level snapshot, name tables
vlib/ops.py         alphabet of Engine A (every public IR mutator over pool selectors, JSON events)
vlib/engine_a.py    BFS over API histories, dedup by snapshot digest, state/step oracles, replay
vlib/scenarios.py   seeds + sub-alphabets S1-S11, naming scopes x policies
vlib/wf.py          C01/C02 invariants + self-containment (public read API only)
vlib/engine_b.py    bounded-exhaustive case runner (ordered, parallel, per-case alarm with one retry, replayable)
vlib/design.py      abstract designs, builder through the API (also "late ports"), F_hier family
vlib/elab.py        independent union-find elaborator
vlib/canon.py sexpr.py edif_writer.py fdesigns.py   name-keyed canon, independent EDIF reader and writer, bases E1-E7
vlib/verilog_writer.py vcanon.py                    independent Verilog writer + bit-level model / extractor
vlib/eblif_writer.py ecanon.py                      independent EBLIF writer + pin-set model / extractor
checks/cNN.py       one module per property: cases(tier), worker / oracle, run, replay
tools/              selftest (setup_cmd), mkmanifest, mkdesign9, baseline.sh, seeded.py, wave.sh
known_findings.json fixed + open findings;  seeded/<id>/  property-breaking changes with demo and meta
```

Exit status of `vcheck`: 0 = held on everything explored (KNOWN-FINDING lines for listed open findings); 1 = at least
one VIOLATION line, each confirmed by replaying its recorded case twice in fresh interpreters (both replays must
print `REPRODUCED`); 2 = observations were made but none could be reproduced from its recorded case (printed as
UNCONFIRMED, no verdict); 3 = the check itself raised (HARNESS-ERROR, no verdict).  Status 1 is never produced
without a VIOLATION line.

### 9.2 Things the plan did not foresee

* **The namespace manager leaks every netlist** (`WeakKeyDictionary` whose values reference the
  children, which reference the key).  Together with the seam (hash serials restart per execution)
  dead worlds made that table degrade quadratically: `reset_world()` therefore empties it, with the
  consequence that **only one world is indexed at a time** - oracles that rebuild a pre-state do so
  after they are finished with the current one (engine_a.run_one, C14, C19).
* The readers set `namespace_manager.default` on the **instance**, shadowing the class attribute;
  the reset and the residue snapshot cover both.
* Reader/composer modules are imported lazily; `core.sdn()` imports all of them up front so that
  the snapshot of module-level globals does not mistake a first import for residue.
* Explicit refusal bounds (Section 2, "0, 1, 2 refused calls") were not needed: a refused call that
  leaves the state unchanged is deduplicated against its parent, one that changes it is a new state
  and is explored (and reported by C14).
* **Proxies are state**: a proxy OuterPin remembers the wire it was connected through, so the pool keeps
  one proxy object per (instance, inner pin) across the events of a history and the snapshot includes
  what each remembers; a seed provides an already stale proxy.
* **Bulk arguments come in odd shapes**: besides lists and sets of every size the alphabet passes a list
  naming one element twice and a one-shot generator.
* Seeded changes are run against a **scratch worktree** of `/repo` (`VERIF_REPO`, `VERIF_OUT`
  redirect the checks and their output) rather than applied to `/repo` itself, so that several can
  be evaluated while other work continues; the effect is the same as apply / run / checkout.
* **Not only from the initial state**: C08 runs uniquify, lets definitions named like the next generated names
  appear and the cells become shared again, and runs it a second time; C03/C05/C20 export, edit and export again;
  C13 queries a design in which naming keys were popped again.
* **Mixed naming policies are ordinary**: the EDIF reader leaves its netlist under the EDIF policy and restores
  DEFAULT, so anything the user then creates and adds crosses policies.  Scenario N-MIX-EDIF (C10, C14) and a
  C20 source cover that; the C10 model judges every scope by the policy of the tree it belongs to.
* **Listeners come in parts**: registration follows what a listener class overrides, so C19 also runs every
  single-hook and every all-but-one listener and compares what each is told with the all-hooks listener.
* **A line audit** (`tools/covaudit.py`, `sys.monitoring`, env `VERIF_COV`) lists the library lines no quick check
  executes.  It is not evidence for any property; it is how unexplored input shapes were found (the other
  documented Verilog spellings, EDIF constructs around the netlist view, `.clock` / inout / nameless instances in
  EBLIF - the last exposed the default-name collision repaired in 29897dc).  What it still lists is mostly error
  text, `NotImplementedError` branches of EDIF constructs outside the netlist view, the `architecture=` option of
  `parse` (primitive libraries: outside the listed properties) and hierarchical BLIF (the property is about flat
  BLIF).
* Engine B runs every case under a wall-clock alarm; a case that does not finish is retried once with four
  times the budget (busy machine) and only then reported (`case-timeout`), so that a seeded infinite loop
  in a transformation is a verdict and a slow machine is not.

### 9.3 Per property: what is enumerated (numbers from the committed evidence files)

| Id | Space | measured |
|---|---|---|
''' + "\n".join(rows) + r'''

''' + thorough_table + r'''
Thorough tiers: depth +1 for every Engine-A scenario (two listeners for C19), the whole F_hier family
(419 k designs: sharing at two depths, depth 3, two children) for C07-C09, C11, C12, names of length
<= 3 (6 M sibling sets) for C17, all declaration orders of the instantiation graphs for C15, bundled
files up to 60-120 kB, all option sets.

### 9.4 Oracle clauses that were narrowed (a check demanded more than the property states)

Each of these was first raised as a violation, examined against the real code and the statement,
and found to be the check's fault; the clause was corrected, never the property.

* C05: a port's base index is not compared (the statement fixes direction and array size only; the
  reader's `[h:l]` handling is dead code).  Bundled files containing constructs whose reading the
  documentation does not fix (duplicate original names, `[3:0]name` nets, a bus bit declared twice)
  are skipped by rule (`sexpr.interpret(...)["ambiguous"]`), not by list.
* C06: an `assign` is compared as a set of joined bit pairs, not by pin order of the helper
  instance; an *empty positional* connection is outside the documented subset.
* C04: names are compared modulo Verilog escaping (IEEE 1364: backslash and terminating blank are
  not part of the identifier); only modules reachable from the top are compared (flatten leaves
  gutted definitions with ports but no nets, which Verilog cannot express); with
  `write_blackbox=False` only primitive port *names* are comparable; uniquify/flatten are not applied
  to the bundled files above 20 kB (uniquify alone takes a minute there).
* C03/C17: a scalar net literally named `a[0]` is claimed by the reader's documented bus convention
  (C05) and is excluded from the end-to-end name clause for nets.
* C18: cover strings are compared modulo surrounding blanks; a net holding a single pin is not
  distinguished from an unconnected pin.
* C16: "the file parses" was demanded for cross-format output (an API-built hierarchy written as
  EBLIF); the statement only says complete and closed, which is what is checked now.
* C13: exact EDIF identifiers under the EDIF policy *may* (not must) match case variants - the docs
  promise that for the fast lookup only; elements lacking the key are judged within the unfiltered
  result of the same key.
* C14: a proxy created only to be passed as an argument is not state (only a proxy that remembers a
  wire is snapshotted).
* C20: the faithful Verilog copy uses a declared primitive (a never-declared one comes back with
  `inout` ports, as documented), the EBLIF base declares every bit of its bus port.
* C19: `clone()` of a wired cable / instance builds its copy without announcements (and must: nothing in any
  existing netlist changes); with clones in a scenario shared with C01 the strict clauses of C19 alarmed on the
  unchanged tree.  The statement speaks of editing calls; clones are exercised under C01, C02, C07, C10 and C14.
* C11: with two roots one of which lies above or below the reference asked for, the documentation does not say
  which of the two relative names applies; the two-roots clause uses a root in another branch.
* C13: whether an element *lacking* the key counts as having the value "" is not fixed; the empty-string clause only
  demands that no element with a non-empty value is returned.
* C18: the names the reader gives to instances without `.cname` are not specified; such instances are matched up
  to their names (every assignment per model is tried).
* C09/C18 self-containment (`wf`): a removed shell that still sits in a reference set, and port pins
  on wires of orphaned cables, were kept as violations (they are observable through
  `definition.references` / `pin.wire`) and fixed in the library.

### 9.5 Genuine defects found by the checks and repaired (`fix:` commits in /repo)

| Property | Commit | What failed |
|---|---|---|
''' + rows_f + r'''

One of these repairs a defect of an earlier repair: the root search added to the Verilog top re-election
looped on a module that instantiates itself; C15's declared-name faults and the instantiation-graph family
(all graphs over three modules, cycles included) now cover that class.  The clone repair needed the EDIF
policy's compliance check to keep port, cable and instance identifiers apart (one commit).

### 9.6 Open findings (recorded in `known_findings.json`, reported as KNOWN-FINDING, not repaired)

| Property | Signature | What fails |
|---|---|---|
''' + rows_o + r'''

The C10 and C13 findings stem from the query layer's use of a single-element `lookup()` for exact patterns: the registered
fast lookup answers for `EDIF.identifier` although the DEFAULT policy does not index it, a non-indexed key
with duplicate values yields one element, and the hierarchical queries apply patterns only to results that
went through their name map.  Each would need the same edit in five query modules; not "small and safe".
The C11 finding (queries from a netlist whose top cell has been removed from it return references that report
invalid) is of the same kind: the validity rule lives in `HRef.is_valid`, the five query functions would each need
it, and which of the two is "right" for such a netlist is a decision for the maintainers.

### 9.7 Seeded property-breaking changes (independent sub-agents, property text only)

`seeded/<id>/{patch.diff, demo.py, notes.txt, meta.json}`; `tools/seeded.py validate <id>` re-checks
that the repository's tests still pass with the change and that the demo fails with / passes
without it; `tools/seeded.py detect <id>` runs the property's quick check against a scratch
worktree carrying the change; `seeded/README.md` lists every change with the current verdict.
Currently ''' + "%d changes, %d valid, %d caught" % (len(seeded), nvalid, ncaught) + (" (missed: %s)" % ", ".join(missed) if missed else "") + (" (no longer property-breaking after a later `fix:` and therefore not valid any more: %s)" % ", ".join(obsolete) if obsolete else "") + (" (judged outside the property as stated, reason in its meta.json: %s)" % ", ".join(out_of_scope) if out_of_scope else "") + r'''.

Verdicts on the final tree: after the last strengthening round every valid change of C03-C09, C11, C15-C18 and C20 and
thirteen of C12 (306 changes) was run again against the checks as committed: all caught (one, C06-w6-m3, had been lost
when the Verilog base net `n2` gained uses on every bit - a bus whose lowest bit is never used was put back as `n3`).
For C01, C02, C10, C13, C14, C19 and the rest of C12 a full pass did not fit into the remaining time (their quick checks
take 1-3 minutes per change): the verdicts of waves 1-7 date from the full re-detection earlier on the last day, those of
waves 8-9 from their own rounds a few hours before the end; the check changes made after those runs are additions.

* Wave 1 (18 changes; C01, C02, C08-C12, C14, C19): 14 caught at once.  The misses led to S9 (definition
  reshaped after it was instanced, then re-pointed), skeleton K10 (wire-only cell instanced twice), the
  `late-ports` build variant and richer naming seeds (orphan carrying an identifier).
* Wave 2 (22 changes; C03-C07, C13, C15-C18, C20): 13 caught at once.  The misses led to bases E4-E6
  (one cell using two other libraries, properties after a renamed one, two cells in different cells' scopes,
  equal cell names in two libraries), the `definition-removed` clone variant, bracketed names in C13,
  11-12 long siblings in C17, the feed-through base B4, one mutation per property in C20, ANSI headers in
  the expression product, declared-name faults, the cross-definition net clause of `wf`, and the later-parse
  probe on a *different* good file in C15.
* Wave 3 (60 changes, all 20 properties, "less obvious places"): 36 caught at once.  The misses led to
  persistent proxies, duplicate / generator bulk arguments, S9 in C14/C19, the strict redundancy clauses of
  C19, lookups from library/netlist roots in C10, found-by-own-name and one-element arrays in C11,
  get_hcables from cable/port starts in C12, E7 and edited-after-export in C03/C05/C20, chains in C04, dense
  comments and blank-carrying string parameters in C06, nested data on every element kind in C07, the
  instantiation-graph family, file-level faults and the independent-reader oracle for re-targeted references
  in C15, the method form and nameless netlists in C16, cross-scope names in C17, the .conn star, 12-input
  .names and lone-backslash continuation in C18, and add-connection mutations in C20.
* Wave 4 (''' + "%d changes, all 20 properties; three kinds asked for: index/ordering slips in loops, bookkeeping kept on the wrong object or at the wrong time, slips on rarely taken branches): %d caught at once" % (len(w4), w4first) + r'''.
  The misses led to: refused calls in C01 (S8 and the naming scopes) and `set_top_instance` / cable reorder / bulk
  cable removal in the scenarios (two ops had been defined but used by no scenario); base E9 (dependency
  triangles among cells and among libraries, a bus whose name starts with a digit) and names that are illegal
  in one position only in C03; vector comma lists and comment-in-comment text in C06; width-3 expressions
  naming a bit twice in C04; clones of EDIF-policy netlists with exact lookups by name *and* identifier in every
  scope in C07; a second uniquify round from a non-initial state in C08; skeletons K11 (depth 4) and K12 (a
  hierarchical cell without ports); the mixed-policy scenario N-MIX-EDIF (an EDIF-read netlist extended with
  elements created under DEFAULT) in C10/C14; several-roots queries, all-unnamed siblings and edits on the deep
  skeletons in C11; a port with base index 4 and popped naming keys in C13; parent-first API sources under both
  set orders in C16; colliding cells in a non-last library in C17; base B6 (.conn on bit 1 of a bus port, a cycle
  of .conn) in C18; single-hook and all-but-one listeners in C19; dropped properties and an EDIF netlist extended
  through the API in C20.  Two genuine defects surfaced on the way (set_top_instance renaming the definition,
  `_x`-style bus names not surviving the EDIF round trip) and were repaired.
* Wave 5 (''' + "%d changes, all 20 properties; three kinds asked for: two features that only fail together, an argument of an unusual but legal type or value, state kept across calls / objects / refused calls): %d caught at once" % (len(w5), w5first) + r'''
  (two verdicts of the first pass were re-taken: they had been produced while the unchanged tree itself still
  showed the stale-set defect below).  The misses led to: caller-owned collections built before the events
  ("held" sets and lists) and scenario S12 (pins across a re-point); C03 sanitised twins, empty libraries, a
  library appended after a first export, copies added after a first export; C04 two compose calls per case and
  one attribute group per attribute; C05 a parse that follows two rejected inputs and bit 0 of an `&_` bus; C06
  positional maps in two modules sharing net names; C09 taken identifiers spelled in upper case; C11 pattern
  lists and two roots; C12 one-shot iterators as starts and re-judging after a connection is removed / moved;
  C13 empty pattern collections, the empty string and more pattern pairs; the manager's process-wide switches
  in the state snapshot (C14); C15 readers given open handles (text / binary file, StringIO, BytesIO), intact and
  cut; C16 with the cyclic collector off inside a case ("closed when the call returns" is then decided by
  reference counting alone); C17 an instance removed and created again under the EDIF policy; C18 a net whose
  name contains `unconn`; C19 the pre-state at the re-point announcement and a listener that vetoes the first
  announcement of every call; C20 reattached pins, refused renames and one net on two bits of a port.  The
  runner now keeps a confirmed violation as the verdict when other observations of the same run cannot be
  reproduced from their recorded case (a change that leaks state between cases of one worker process used to
  end as HARNESS-ERROR).  Genuine defects found on the way and repaired: a stale caller-owned set in
  `Wire.disconnect_pins_from`, uniquify with very long identifiers and with an un-named shared cell, repeated
  sibling identifiers written by the EDIF composer after copies were added to an exported netlist.
* Wave 6 (''' + "%d changes, all 20 properties; three kinds asked for: pipelines (visible only when entry points are chained), boundary values, order dependence): %d caught at once" % (len(w6), w6first) + r'''
  (the three C19 verdicts were re-taken: a scenario change of mine - clones inside a scenario that C19 shares - had
  made the C19 check alarm on the unchanged tree for a few commits; clone is not an editing call in the sense of
  C19 and moved to a scenario of its own, see 9.4).  The misses led to: held lists for every container; S16 / S17
  (clone after reshaping, with a clause that the copy's instances keep their connections on the corresponding
  pins); N-MIX-EDIF under the C19 mirror; C03 a cell appended after export and twins that differ in case *and* in an
  illegal character; C04/C06/C16 a one-bit net based at 5 and a bus whose lowest bit is never used; C07 bundles not
  based at 0 / not downto and wires with reversed pin lists; C08 orphan instances in the reference sets; C09 the
  flattened cell reused under a name that repeats along the path; C10 identifier length boundaries and lookups from
  above on reader-built netlists; C11 the queries asked again after every edit, also from references held from
  before; C13 renamed capital identifiers and a one-bit array based at 3; C17 a sibling inserted in front under the
  EDIF policy; C18 parse, rename and copy, write, read; C20 compare, edit, compare.  Side observations of the
  sub-agents confirmed as genuine defects and repaired: comment lines between an EBLIF statement and its data,
  a short `.latch` before a complete one.  Found by the thorough tier of C10 at depth 3 and repaired:
  `x.name = None` on a nameless element.
* Wave 7 (''' + "%d changes, all 20 properties; three kinds asked for: undo pairs (an operation followed by its inverse), two handles on one thing getting out of step (aliasing), faults that need three conditions together: %d caught at once" % (len(w7), w7first) + r'''.
  The misses led to: a held view of `instance.pins` compared with the container after every step (C02); C03 `%<n>%`
  escapes taken literally, a port reshaped after a first export, and a name next to the sanitised form of a
  sibling that an *earlier* cell also uses; the Verilog base gained the constants x / X / z / Z and assigns between
  bits of one bus (C04, C06, C16); a netlist-wide clause that no two elements hold the same mutable metadata
  container (C05, C06, C15, C18); the shape family - every sharing shape of a hierarchy up to five levels deep, each
  level instancing the next once, twice, or once plus the level after next - in C08, C09, C11 and C12 (a cell that
  only becomes shared while uniquify runs, two levels below the cell that was shared at the start); "undone" edits in
  C11 (taken out and put back, also in bulk: nothing may be broken afterwards) and pins named through an equal handle
  as query roots; edits made through such a handle in C12; the plugin switched off and on again before the queries
  and the caller's list of roots left untouched in C13; comment lines in the EBLIF bases and the netlist-level data
  in the later-parse comparison of C15; identifiers that are not derived from the names, the same one in every
  scope of its kind, in C16; copies added after an export under capitalised identifiers and names with edge blanks
  in C17; a second file read inside one C18 case; widen-then-narrow and in-place edits of a clone's property in C20.
  Two machinery corrections came out of this wave: a crash of a check now exits 3 (one first-pass "caught" verdict
  was an uncaught exception of the harness, exit status 1 without a VIOLATION line; it is recorded as missed), and
  the runner confirms one observation per clause in turn, so that a reproducible clause is reached even when
  dozens of unreproducible observations of a state-leaking change sort in front of it.
* Wave 8 (''' + "%d changes, all 20 properties; three kinds asked for: partial failure (a call refused part-way leaves something done), lazy evaluation (generators, views, results read late or twice), optional arguments given explicitly / as None / omitted: %d caught at once" % (len(w8), w8first) + r'''
  - the lowest first-pass rate of all waves, which is why it was worth running.  The misses led to: a *prelude of refused
  calls* (bulk calls whose last member is foreign, duplicate names, elements that live elsewhere, connected pins,
  re-points to another shape - all must be refused and leave the design as it was) in front of uniquify, flatten, the
  hierarchical queries and the net traces (C08, C09, C11, C12); positions that are negative, past the end or not an
  index at all in C01 / C02 (scenarios S18); held views of instance pins across un-referencing (C02) and of reference
  sets across clones (C07); C03 / C05 EDIF texts that declare a net twice under case-variant identifiers and instances
  that repeat a sibling's name (both documented reader behaviour that no text exercised), and triples that sanitise
  alike; C04 the written text read after sources the reader rejected half-way; C06 positional maps on a never-declared
  module used several times, and designs read together with a device library (`architecture=`: every subset of the
  library's cells, every order, both port styles, a cell lacking a port) - `primitive_library_reader.py` is anchored
  by C06 and had not been executed by any check; C08 a second round that adds sharing below the first level, and a
  shared cell outside any library (a failed uniquify leaves no trace); C10 exact lookups asked before an event and read
  after it; C11 renaming edits (names of held references follow), case twins and the non-default pattern options; C12
  starts given as a list the caller keeps, and the caller's filter; C13 a history of refused adds; C14 a bulk call that
  names a stranger must be refused whatever collection carries the names; C15 the policy switched between making and
  running a reader, and references spelled like an element's original name; C16 refused writes (netlist unchanged, the
  same refusal when asked again); C17 refused adds under the EDIF policy before an export; C18 a refused draft between
  two files, and writing without `.cname`; C19 constructors given a properties dictionary; C20 the top instance
  dropped, a property added, the same comparer asked twice.  One change (C20-w8-m2, ports of a copy listed in another
  order) was judged to lie outside the property as stated and is not claimed.  Genuine defects found while closing
  these gaps, all repaired: a device library that ends in a directive made `parse(..., architecture=)` fail with
  StopIteration; a netlist read from positional maps on a never-declared module could not be written as Verilog;
  `Wire.connect_pin(instance_pin, <not an index>)` left the pin claiming the wire; the comparer accepted a copy whose
  instance had gained a property.  An observation outside the properties as stated (not alarmed on): an `add_*` call
  that fails with a TypeError because its position is not an index has by then been announced to the listeners, so the
  name stays in the parent's name table (`d.add_port(p, 0.5)`, then `d.create_port(name=p.name)` is refused); C14 lists
  refusals by precondition and by the naming rules, not type errors of the caller, and the S18 scenarios are therefore
  run by C01 / C02 only.
* Wave 9 (''' + "%d changes, all 20 properties; three kinds asked for: sibling paths (right for the path everybody uses, wrong for its sibling), identity / equality / type confusions, scale (needs four or five siblings, a bus of ten or more bits, four or more levels, more than nine generated names, a name at a length limit): %d caught at once" % (len(w9), w9first) + r'''.
  The scale kind was aimed at the small bounds of this framework, and most of its changes were missed at first.  The
  misses led to: *bulk removals at scale* in C01 / C02 - for every container kind, every size up to 6 (8 in the
  thorough tier) and every subset of the members, as a list and as a set, against the obvious model (a shortcut that
  is exact for one or two removals needs three scattered removals out of four to show; Engine A names at most two of
  three); twelve siblings sharing their first 255 characters in C03; a four-bit port fed with the inner bits of one
  bus exchanged, and header ports each an alias of the net named like the other, in the Verilog base (C04, C06);
  identifiers of 255 and of 256 (with `&`) characters in the EDIF texts (C05, C03); a chain twelve modules deep in 28
  orders (C06); reference sets of a dozen members (C07); taken identifiers spelled as generated, and the counter
  behind the generated suffixes preset to 9 / 99 / 999 (C08: "not the first uniquify of the process"); fourteen taken
  candidates and a cell in another library under the top cell's name (C09); upper-case class escapes, same-named
  cells side by side, independent baselines for the unfiltered results, a dozen patterns at once and the clause that
  a pattern list gives the union of its patterns (C13); a connected pin named through any handle must be refused
  (C14); temporary-file handles (C15); a chain of 40 cells and 6 layers of 8 cells in one library, and a comment
  stored as a plain string (C16); copies whose identifier differs in case only (C17); port lists split over several
  statements and nets named like black-box ports (C18); 2-5 listeners with every proper subset removed again - the
  rest is called in registration order (C19); twelve-bit buses next to digit-ending one-bit ports and property values
  under another type (C20).  Two changes were aimed at a property that cannot see them by its wording and are
  detected by the check of the property they really break, which is recorded in their meta.json (C07-w8-m1 by C08,
  C14-w9-m3 by C10).  Machinery corrections of this wave: the design constructors of `fdesigns` shared port
  dictionaries, and an in-place edit made while adding a C15 base changed the texts C15 renders from the second
  call of a process on, which made observations unreproducible in a fresh interpreter (found because a caught
  change came back as UNCONFIRMED; `fdesigns.BASES` now hand out private copies); a C19 helper crashed (exit 3) on an
  older seeded change after a path was added, found by the re-detection of all earlier changes on the final tree.
  Six earlier patches no longer applied after the `fix:` commits of waves 8 and 9 and were re-based; two of them
  (zip instead of indexing in the comparer) have become harmless and are marked obsolete.
'''
path = os.path.join(V, "DESIGN.md")
s = open(path).read()
marker = "\n---------------------------------------------------------------------------------------------------\n\n## 9. As built"
if marker in s:
    s = s[:s.index(marker)]
open(path, "w").write(s.rstrip("\n") + "\n" + sec)
print("section 9 regenerated:", len(seeded), "seeded,", len(fixed), "fixed,", len(opn), "open")
