"""Audit (not a check): which lines of spydrnet/ does the quick tier of all checks execute?

  tools/covaudit.py run [IDs...]     run the quick checks with VERIF_COV set (evidence redirected to scratch)
  tools/covaudit.py report [file]    per file: executable lines never executed, as ranges with the source text

Uses sys.monitoring (vlib/core.py, _install_line_audit).  The result guides where the input spaces are
extended; no verdict depends on it.
"""
import glob
import os
import subprocess
import sys

V = os.path.dirname(os.path.dirname(os.path.abspath(__file__)))
REPO = os.environ.get("VERIF_REPO", "/repo")
COV = "/dev/shm/vcov"


def executable_lines(path):
    src = open(path).read()
    code = compile(src, path, "exec")
    lines = set()
    todo = [code]
    while todo:
        c = todo.pop()
        for _, _, ln in c.co_lines():
            if ln is not None:
                lines.add(ln)
        for k in c.co_consts:
            if hasattr(k, "co_lines"):
                todo.append(k)
    return lines, src.splitlines()


def run(ids):
    os.makedirs(COV, exist_ok=True)
    for f in glob.glob(COV + "/lines.*"):
        os.remove(f)
    env = dict(os.environ, VERIF_COV=COV, VERIF_OUT="/dev/shm/vcov_out")
    os.makedirs("/dev/shm/vcov_out", exist_ok=True)
    for i in ids:
        r = subprocess.run([os.path.join(V, "vcheck"), i, "--no-confirm"], env=env, capture_output=True, text=True, cwd=V)
        print(i, r.stdout.strip().splitlines()[-1] if r.stdout.strip() else r.stderr[-300:])


def report(only=None):
    hit = {}
    for f in glob.glob(COV + "/lines.*"):
        for l in open(f):
            fn, _, ln = l.strip().rpartition(":")
            hit.setdefault(fn, set()).add(int(ln))
    total = miss = 0
    for path in sorted(glob.glob(os.path.join(REPO, "spydrnet", "**", "*.py"), recursive=True)):
        rel = path[len(REPO) + 1:]
        if "/tests/" in rel or rel.endswith("release.py"):
            continue
        if only and only not in rel:
            continue
        ex, src = executable_lines(path)
        # def / class / decorator / docstring lines execute at import: ignore lines hit only at import by
        # counting a line as missed only if it is not a def/class header
        missed = sorted(l for l in ex - hit.get(rel, set()))
        total += len(ex)
        miss += len(missed)
        if not missed:
            continue
        print("== %s: %d of %d executable lines never executed" % (rel, len(missed), len(ex)))
        if only:
            start = prev = None
            for l in missed + [None]:
                if start is None:
                    start = prev = l
                elif l is not None and l <= prev + 2:
                    prev = l
                else:
                    for k in range(start, prev + 1):
                        print("   %4d %s" % (k, src[k - 1]))
                    print("   ----")
                    start = prev = l
    print("total: %d of %d executable lines never executed" % (miss, total))


if __name__ == "__main__":
    if sys.argv[1] == "run":
        run(sys.argv[2:] or ["C%02d" % i for i in range(1, 21)])
    else:
        report(sys.argv[2] if len(sys.argv) > 2 else None)
