"""Regenerates MANIFEST.json from the table below (keeps it valid at all times)."""
import json, os
HERE = os.path.dirname(os.path.dirname(os.path.abspath(__file__)))
A = "explicit-state model checking of the implementation: BFS over histories of real API calls, canonical-state dedup, oracle on every state/transition"
B = "bounded-exhaustive enumeration of an explicit finite input space executed on the real code, oracle from an independent reference"
CHECKS = {
 "C01": ("engine-a", "model_checking", A,
         "every history of public mutator calls (valid and invalid arguments, proxy outer pins included) up to the stated depth from the seed states of scenarios S1-S14 and the DEFAULT naming scopes (bulk arguments as lists, sets, generators, duplicates, held collections and live views), under two set-iteration orders; ownership and pin-wire invariants in every reached state, permutation clause on every reorder",
         "bounded: depth 2-3 (quick) / 3-4 (thorough) per scenario; trusted: vlib/wf.py, CPython"),
 "C02": ("engine-a", "model_checking", A,
         "every history of definition/port/pin edits and instance create/re-point/un-reference/remove calls up to the stated depth from seeds with 0, 1 and 2 live instances (children and top instances); reference-set and outer-pin mirror invariant in every state, connection-preservation clause on every accepted re-point",
         "bounded as C01; an outer pin counts as dropped once it was observed stored and no longer is"),
 "C10": ("engine-a", "model_checking", A,
         "per naming scope x policy (DEFAULT, EDIF): all histories of create/add/remove/bulk-remove/re-add/rename/identifier set-delete-pop/name deletion/clone over colliding names; every transition compared with a scan-based prediction (refused iff duplicate or illegal), every exact lookup compared with a scan in every state; the canonical state includes the name index's hidden tables",
         "bounded: depth 2 (quick) / 3 (thorough) per scope; names {a,A,b}, identifiers {a,A,b,1x} plus the length boundaries; policy fixed per scope except in the mixed-policy scenario (an EDIF tree joined by DEFAULT-built orphans); exact lookups also on reader-built netlists and their clones"),
 "C14": ("engine-a", "model_checking", A,
         "in every state reached in the C01/C02/C10 scenario spaces every event of the alphabet is fired with every pool object of the accepted type; each refused call is compared with its pre-state (identity-level snapshot incl. name index, then all exact lookups)",
         "bounded as C01/C10; a call is refused iff it raises"),
 "C19": ("engine-a", "model_checking", A,
         "the C01/C02 scenario histories run with a CallbackListener registered before the seed is built: a shadow model updated only from notifications equals the real structure after every call; at notification time the announced change is not yet visible; every transition re-executed without listeners gives the same outcome and state",
         "bounded as C01; shadow may read the real pre-state at notification time; redundant re-announcements tolerated; order inside containers not mirrored"),
 "C08": ("engine-b", "model_checking", B,
         "every design of the F_hier family (skeletons with sharing at one/two depths, wire-only cells, bus ports; every wiring partition of each definition's endpoints; variants dangling nets / instance outside the top hierarchy / two libraries / pre-existing clashing names) is uniquified; independent elaboration before == after (path tree, leaf types, partition of leaf pin bits and top port bits), reference-set sizes along every path, well-formedness, library/name of new definitions, idempotence",
         "bounded: depth <= 3, fan-out <= 2, widths <= 2; trusted: vlib/elab.py (union-find elaborator over the public read API), vlib/wf.py"),
 "C09": ("engine-b", "model_checking", B,
         "every design of the F_hier family is uniquified and flattened; the flattened top definition is read directly and compared with the independent elaboration of the original: one leaf per leaf path named by the slash-joined path, same leaf definition and data, no hierarchical instance left, identical partition of leaf pin bits and top port bits, well-formedness",
         "bounded as C08; instance data compared apart from .NAME/EDIF.identifier which flattening rewrites"),
 "C12": ("engine-b", "model_checking", B,
         "for every design of the F_hier family every hierarchical wire, pin, cable and port occurrence (and every wire element over all its occurrences) is the start of get_hwires / get_hcables with selections ALL, INSIDE, OUTSIDE, BOTH and of get_hpins; result sets compared with the equivalence classes of an independent union-find elaboration",
         "bounded as C08; the top instance is not itself instanced"),
 "C11": ("engine-b", "model_checking", B,
         "for every design (F_hier incl. shared definitions at one/two depths, wire-only cells, bus bundles, unnamed items) the five get_h* functions and get_all_hrefs_of_item are run from every root kind with recursive on/off and compared with an independent enumeration of occurrences (no omission, no duplicate, valid, correct name, same object for the same path); then every single breaking edit is applied and every previously obtained reference is re-judged (is_valid, is_unique) against a fresh elaboration",
         "bounded as C08; root semantics taken from the docstrings; is_unique judged for instance references only"),
 "C05": ("engine-b", "model_checking", B,
         "EDIF texts rendered by an independent writer (vlib/edif_writer.py) from abstract designs - base designs x rendering options (reference letter case, rename style, libraryRef present/omitted, comments, design reference case) x every permutation and every non-empty subset of the bits of each bus net, plus F_hier designs - and the bundled .edf examples (vs an independent s-expression reading) are parsed by the real reader; canonical structure incl. identifiers, original names, property types, member indices, bus merging and the top design must equal the abstract design; well-formedness",
         "bounded: 8 base designs x 144 option sets, bus width 3, F_hier K1/K8 (quick) + K2/K5 (thorough), bundled files under a byte cap; trusted: the independent writer and s-expression reader; port base index is not compared (not in the statement)"),
 "C03": ("engine-b", "model_checking", B,
         "every netlist of the input space - API-built base designs x variants (undefined direction, reversed declaration order, bus base index 5 with pins listed in another order, 1-pin array ports, names needing rename, typed properties), the F_hier family incl. leaves declared after their users, and reader-built netlists (bundled .edf, independent-writer texts: idempotence) - is written by the real composer and read back by the real reader and by an independent s-expression interpreter; name-keyed canonical structures must agree",
         "bounded: see coverage.bounds_completed; library/cell order and port base index not compared (not in the statement); trusted: vlib/canon.py, vlib/sexpr.py"),
 "C17": ("engine-b", "model_checking", B,
         "the composer's renaming pass (real code) on every ordered pair of sibling names of length <= 2 / <= 3 over a 13-character adversarial alphabet, triples of 1-character names, pre-existing x_sdn_N_ names in every processing order, length-boundary families (254..300, shared prefixes); every namespace scope end to end through compose + parse; identifiers legal (independent regex), pairwise distinct ignoring case, rename recorded, re-read names equal the originals",
         "bounded alphabet and lengths as stated; net names of the form name[i] excluded end-to-end (claimed by the reader's bus convention)"),
 "C06": ("engine-b", "model_checking", B,
         "Verilog texts rendered by an independent writer (vlib/verilog_writer.py): a rich base design (escaped identifiers, parameters, attributes, positional and named maps, `celldefine and never-declared primitives, constants, empty connections, part-select assigns, wire ranges not based at 0) in every module order x header/ANSI ports x comments; module chains of depth 3-5 in every declaration order; and, for an instance port of width 1..3, every connection expression of the grammar id | id[i] | id[h:l] | 1'b0 | 1'b1 | {e,e} | empty x named/positional x target declared before/after/`celldefine/never. The parsed bit-level structure must equal the model",
         "bounded: widths <= 3, concatenations of 2; an empty positional connection is excluded (not in the documented subset); trusted: the independent writer and its bit-level model"),
 "C04": ("engine-b", "model_checking", B,
         "every reader-built netlist of the input space (C06 texts, bundled .v files under a byte cap) x transform (identity, uniquify, uniquify+flatten, clone) x composer options (write_blackbox, defparam) is written and read back; cables, per-bit endpoints, instances with parameters/attributes, assign bit pairs and ports must be equal over the modules reachable from the top",
         "names compared modulo Verilog escaping (IEEE 1364); inferred black-box ports are written inout (documented); with write_blackbox=False only primitive port names are compared"),
 "C18": ("engine-b", "model_checking", B,
         "EBLIF texts rendered by an independent writer (vlib/eblif_writer.py) from flat abstract designs (.subckt/.gate/.names/.latch/.conn, bus-indexed nets, unconn actuals, .cname/.attr/.param, a model instanced with a growing port set, constants, chained .conn) in every statement order x line-continuation positions x comments x black-box models declared before/after/never; instances, data, port directions and nets-as-pin-sets must equal the model, black boxes are leaf primitives, the netlist is well-formed; compose + parse reproduces instances, types, data and nets; bundled .eblif files pass the same well-formedness and round-trip clauses",
         "bounded: 3 base designs of <= 5 statements; every instance carries a .cname; single-pin nets are not distinguished from unconnected pins; cover strings compared modulo surrounding blanks"),
 "C16": ("engine-b", "model_checking", B,
         "every netlist of the input space (API-built and reader-built from all three formats, bundled files) is composed to every target format under every option set (definition_list, write_blackbox, defparam, write_eblif_cname); identity-level snapshot of the whole netlist before == after with only the documented EDIF side effects masked; file stable at return; second compose and compose after all query functions byte-identical modulo the timestamp; file properly terminated",
         "bounded: see coverage.bounds_completed; a format counts as composable for an input when its composer returns normally"),
 "C13": ("engine-b", "model_checking", B,
         "for each naming policy a netlist with colliding sibling names (a, A, ab, a1, unnamed), EDIF identifiers and a user key with duplicate values; 13 query functions x 12 root kinds x selection x recursive x key x patterns derived from the names present (exact, case-swapped, prefix*, ?, escaped regex, pairs in both orders, repeated) x is_case x is_re x filter callback x fast lookup registered or not; every result is compared with the unfiltered result under the same key restricted by an independent match function; no element twice",
         "one netlist per policy; exact EDIF identifiers under the EDIF policy may (not must) match case variants - the docs promise that for the fast lookup only; elements lacking the key are judged within the unfiltered result of that key"),
 "C20": ("engine-b", "model_checking", B,
         "for reader-built base netlists of all three formats: faithful copies (second parse of the same text, clone, write-then-read in the own format) must compare equal; every single structural mutation of a copy - each port direction, width +-1, array-ness, each cable width +-1, each connection moved to every other free pin (other bit / other port / other instance), dropped connections, re-pointed instances, property values, one library/definition/port/cable/instance added or dropped - must make Comparer.compare() raise",
         "bounded: 5 base netlists, every single mutation of each (several hundred per base); the copy is the second parse of the same text"),
 "C07": ("engine-b", "model_checking", B,
         "every element (netlist, library, definition, instance, port, cable, wire, inner pin, outer pin) of every design of the input space (F_hier incl. two libraries, instance outside the top hierarchy, top instance also a child, unnamed elements, nested user data) is cloned; a parallel walk pairs original and copy and every link of the copy must be the image of the original's link or cut where it leaves the cloned sub-tree (nothing points into the original, reference sets as documented, data deep-copied, source unchanged apart from documented reference-set additions); netlist copies: closure, well-formedness, agreement of all flat and hierarchical queries; then every edit tail (12-operation alphabet incl. uniquify and flatten, length <= 1 / <= 2) on the copy or the original leaves the other's fingerprint unchanged",
         "bounded: quick = K1/K8 with all wirings + first wirings of the other skeletons, thorough = whole family; expected shape of element clones per the clone() docstrings"),
 "C15": ("engine-b", "fault_enumeration", "exhaustive single-fault enumeration (every token-level corruption of every base file) executed on the real readers, residue oracle over all process-wide state",
         "for valid EDIF / Verilog / EBLIF base files from the independent writers every single token-level corruption (truncation at each token boundary, deletion, duplication, replacement by each of ( ) undeclared-name unsupported-keyword number nothing; EDIF reference tokens replaced by undeclared names) is parsed under a wall-clock alarm + deterministic line budget, with the DEFAULT and the EDIF policy in force: the reader raises or returns a well-formed netlist, dangling references / unsupported constructs raise, and all process-wide state (every module-level mutable global, naming policy, registries) plus a fixed probe script are as before the call; since every single event returns to the initial residue, every sequence does",
         "bounded: single faults on 6 base files; 'raises' = any Exception"),
}
m = {
 "version": 1,
 "setup_cmd": "/venv/bin/python tools/selftest.py",
 "hooks": {
  "guard": "SPYDRNET_VERIF",
  "enable": "none needed: all instrumentation is external (monkey-patched Element.__hash__, private fields read for hashing only); checks import spydrnet from /repo through sys.path, so they always see the working tree",
  "baseline_off_cmd": "cd /repo && /venv/bin/python -m pytest -ra -q -p no:cacheprovider --timeout=900 --continue-on-collection-errors",
  "source_commits": [],
  "add_only": True,
 },
 "engines": [
  {"name": "engine-a", "path": "vlib/engine_a.py", "serves_properties": [k for k, v in CHECKS.items() if v[0] == "engine-a"],
   "kind_free_text": "explicit-state BFS over histories of real API calls; state = canonical identity-level snapshot of the real object graph + name-index tables; invariant/step oracles; two set-order variants"},
  {"name": "engine-b", "path": "vlib/engine_b.py", "serves_properties": [k for k, v in CHECKS.items() if v[0] == "engine-b"],
   "kind_free_text": "bounded-exhaustive enumeration of abstract designs / option products / fault positions executed on the real code against independent references"},
 ],
 "checks": [],
 "not_applicable": [],
 "notes": "see DESIGN.md; known_findings.json lists genuine defects (open = reported as KNOWN-FINDING, fixed = repaired by a fix: commit in /repo)",
}
# what the later strengthening rounds added to each input space (DESIGN.md section 9.7 tells why)
ALSO = {
 "C01": "bulk removals at scale (every subset of up to 6 / 8 members of every container kind, as list and as set, against the obvious model); positions that are negative, past the end or not an index",
 "C02": "the same bulk removals and odd positions on cells that have instances; views of instance pins held across the events",
 "C03": "texts with nets declared twice under case-variant identifiers, instances repeating a sibling's name, identifiers at the length limit, twelve siblings sharing 255 characters, pipelines through uniquify / flatten / clone before the export",
 "C04": "the written text read after sources the reader rejected half-way; constants x/X/z/Z, assigns inside one bus, a four-bit port fed with inner bits exchanged, cross-named alias ports, positional maps on never-declared modules",
 "C05": "nets declared twice, duplicate instance names, identifiers of 255 / 256 characters, the rich spellings of the supported constructs",
 "C06": "thorough: port widths up to 5 and three-item concatenations; a chain twelve modules deep in 28 orders; positional maps on a never-declared module used several times; the design read together with a device library (every subset of library cells, every order, both styles, a cell lacking a port); no two elements share a metadata container",
 "C07": "reference sets of a dozen members; views of reference sets and instance pins held across the clones",
 "C08": "the shape family (every sharing shape of a hierarchy up to five levels deep); a prelude of refused calls; a second round adding sharing below the first level; a shared cell outside any library; the suffix counter preset to 9 / 99 / 999; taken identifiers",
 "C09": "the shape family; a prelude of refused calls; fourteen taken candidate identifiers; a cell in another library under the top cell's name; the flattened cell reused",
 "C10": "exact lookups asked before an event and read after it; identifier length boundaries; reader-built netlists and their clones",
 "C11": "the shape family; edits that are undone, renaming edits (names of held references follow), a prelude of refused calls, case twins and the non-default pattern options, pins named through an equal handle",
 "C12": "the shape family; starts given as one-shot iterators and as a list the caller keeps (asked twice), the caller's filter, edits through an equal handle, a prelude of refused calls",
 "C13": "independent baselines for the unfiltered results; a pattern list gives the union of its patterns (lists of up to twelve); upper-case class escapes; histories of pops, renames and refused adds; the plugin switched off and on again",
 "C14": "a bulk call naming a stranger, and a connect of a connected pin however it is named, must be refused",
 "C15": "readers given open handles (text / binary files, StringIO, BytesIO, temporary files), intact and cut, with the policy switched between making and running the reader; references spelled like an element's original name; the instantiation-graph family; file-level faults",
 "C16": "refused writes (netlist unchanged, the same refusal when asked again); a chain of 40 cells and 6 layers of 8 in one library; identifiers not derived from names; a comment stored as a plain string",
 "C17": "copies added after an export (also under a case-variant identifier), refused adds under the EDIF policy before an export, names with edge blanks, siblings inserted in front under the EDIF policy",
 "C18": "port lists split over several statements, nets named like black-box ports, a refused draft between two files, writing without .cname, parse-rename-copy-write-read",
 "C19": "single-hook and all-but-one listeners, a listener vetoing the first announcement, constructors given a properties dictionary, 2-5 listeners with every proper subset removed again (registration order)",
 "C20": "compare-edit-compare, widened-then-narrowed bundles, in-place property edits on a clone, the top instance dropped, a property added / re-typed, the same comparer asked twice, twelve-bit buses next to digit-ending one-bit ports",
}
props = [json.loads(l)["id"] for l in open(os.path.join(HERE, "properties.jsonl"))]
for pid in props:
    if pid in CHECKS:
        eng, cat, tech, text, note = CHECKS[pid]
        if pid in ALSO:
            text = text + ". Added by the strengthening rounds: " + ALSO[pid]
        m["checks"].append({
            "property_id": pid, "quick_cmd": "./vcheck %s --tier quick" % pid, "thorough_cmd": "./vcheck %s --tier thorough" % pid,
            "evidence_file": "/verif/evidence/%s.json" % pid, "replay_cmd_template": "./vcheck %s --replay {path}" % pid,
            "engine": eng, "level_claimed": {"category": cat, "text": text, "design_ref": "DESIGN.md section 5, " + pid},
            "level_note": note, "technique": tech})
    else:
        m["not_applicable"].append({"property_id": pid, "reason": "check not built yet (work in progress; planned in DESIGN.md section 5) - not claimed"})
json.dump(m, open(os.path.join(HERE, "MANIFEST.json"), "w"), indent=1)
print("claimed:", [c["property_id"] for c in m["checks"]])
