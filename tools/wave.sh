#!/bin/sh
# tools/wave.sh <out dir> <tag>: import every <out>/<PROP>/mK/ as seeded/<PROP>-<tag>-mK, validate in parallel,
# then run the property's quick check against each (sequentially) and print the verdicts.
OUT=$1; TAG=$2; cd /verif
NEW=""
for d in $OUT/C*/m*; do
  [ -f $d/patch.diff ] && [ -f $d/demo.py ] || continue
  [ -f $d/notes.txt ] || echo "(no notes)" > $d/notes.txt
  p=$(basename $(dirname $d)); m=$(basename $d); id=$p-$TAG-$m
  [ -d seeded/$id ] && continue
  /venv/bin/python tools/seeded.py import $d $id $p; NEW="$NEW $id"
done
echo "imported:$NEW"
echo $NEW | tr ' ' '\n' | grep . | xargs -P 6 -I{} /venv/bin/python tools/seeded.py validate {} 2>&1 | cut -c1-40
for id in $NEW; do
  v=$(/venv/bin/python -c "import json;print(json.load(open('/verif/seeded/$id/meta.json')).get('valid'))")
  [ "$v" = "True" ] || { echo "$id INVALID - skipped"; continue; }
  /venv/bin/python tools/seeded.py detect $id 2>&1 | cut -c1-200
done
