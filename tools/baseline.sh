#!/bin/sh
# runs the repository's pinned suite (guard off) and prints failing test ids; the snapshot's two
# placeholder-zip tests (test_small_edif, test_small_edif_cables) fail by construction.
cd /repo && env -u SPYDRNET_VERIF /venv/bin/python -m pytest -q -rf -p no:cacheprovider --timeout=900 --continue-on-collection-errors 2>&1 | grep -E '^(FAILED|ERROR|[0-9]+ (passed|failed))|passed|failed' | tail -15
