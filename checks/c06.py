"""C06 - the Verilog reader builds exactly the design the source describes (Engine B)."""
import itertools
import os
import time

from vlib import core, engine_b, wf, verilog_writer as vw, vcanon

ID = "C06"
LEVEL = "model_checking"
ASSUMPTIONS = [
    "texts come from vlib/verilog_writer.py (independent of the repository's composer); input space = a rich base "
    "design x (every module order, header/ANSI ports, comments) plus, for one instance port of width 1..3, every "
    "connection expression of the grammar id | id[i] | id[h:l] | 1'b0 | 1'b1 | {e,e} | empty up to the port width x "
    "named/positional x target declared before / after / as `celldefine primitive / never declared",
    "module ports are based at index 0 (as the property states); wires use ranges [2:0] and [3:2]; ranges are "
    "descending (the documentation shows no ascending range and the reader/composer pair does not keep one)",
]


def base_vad():
    return {"top": "top", "modules": [
        {"name": "top", "attrs": {"top_attr": '"1"', "bare_top": None}, "params": {"P": "4", "[3:0] W": "4'h3", "integer N": "7"},
         "ports": [["a", "in", None, None], ["y", "out", 1, 0], ["\\esc.in", "in", None, None], ["b", "in", 2, 0]],
         "wires": [["w", 1, 0, {"keep": None}], ["\\q[3]", None, None], ["r", 5, 3], ["s1", None, None], ["v", 1, 0], ["t", 5, 5], ["n2", 7, 4], ["n3", 9, 6]],
         "insts": [
             {"name": "u0", "module": "leaf", "positional": True, "params": {"INIT": "8'h0F", "S": '"str"', "T": '"two  words and\ttab"'},
              "conns": [[None, [["net", "a"]]], [None, [["bit", "w", 0]]], [None, [["net", "y"]]]]},
             {"name": "\\inst/x", "module": "leaf", "attrs": {"dont_touch": '"true"', "bare": None, "after": '"x y"'},
              "conns": [["i", [["net", "\\esc.in"]]], ["o", [["net", "\\q[3]"]]], ["d", [["bit", "w", 1], ["net", "\\q[3]"]]]]},
             {"name": "m0", "module": "mid", "empty_params": True, "conns": [["p", [["range", "w", 1, 0]]], ["r", [["range", "r", 5, 4]]], ["al", [["bit", "b", 0], ["net", "a"]]],
                                                      ["p2", [["bit", "r", 3], ["bit", "b", 2]]], ["al1", [["net", "s1"]]],
                                                      ["q4", [["bit", "n2", 7], ["bit", "n2", 5], ["bit", "n2", 6], ["bit", "n2", 4]]],
                                                      ["ca", [["bit", "v", 1]]], ["cb", [["bit", "v", 0]]]]},
             {"name": "p0", "module": "prim", "conns": [["x", [["c", 0]]], ["z", [["bit", "b", 2], ["c", 1]]], ["q", []]]},
             {"name": "p1", "module": "prim", "conns": [["x", [["bit", "r", 3]]], ["z", [["range", "b", 1, 0]]]]},
             # the four-valued constants in both spellings of the value letter
             {"name": "p2", "module": "prim", "conns": [["x", [["c", "X"]]], ["z", [["c", "z"], ["c", "Z"]]], ["q", [["c", "x"]]]]},
             {"name": "dd", "module": "leaf", "conns": [["d", [["net", "s1"], ["net", "s1"]]]]},   # one net on two bits of a port
             # a one-bit net based at 5; a bus of which only a middle bit is used (its lowest bit never is)
             {"name": "tt", "module": "leaf", "conns": [["i", [["bit", "t", 5]]], ["o", [["bit", "n3", 8]]]]},
             {"name": "u9", "module": "leaf", "positional": True,
              "conns": [[None, [["net", "s1"]]], [None, [["bit", "v", 0]]], [None, [["range", "r", 4, 3]]]]}],
         "assigns": [[[["bit", "y", 0]], [["bit", "b", 1]]], [[["range", "r", 5, 4]], [["range", "b", 2, 1]]],
                     # bits of one bus assigned from other bits of the same bus
                     [[["range", "n2", 5, 4]], [["range", "n2", 7, 6]]], [[["bit", "v", 1]], [["bit", "v", 0]]]]},
        {"name": "leaf", "celldefine": True, "ports": [["i", "in", None, None], ["o", "out", None, None], ["d", "out", 1, 0]]},
        {"name": "mid", "ports": [["p", "in", 1, 0], ["p2", "in", 1, 0], ["r", "out", 1, 0], ["al", "in", None, None, ["hi", "lo"]], ["al1", "in", None, None, ["one"]],
                                  # a four-bit port (fed from one bus with its inner bits exchanged), and two header ports
                                  # each of which is an alias of the net named like the other
                                  ["q4", "in", 3, 0], ["ca", "in", None, None, ["cb"]], ["cb", "out", None, None, ["ca"]]],
         "insts": [{"name": "l", "module": "leaf", "conns": [["i", [["bit", "p", 0]]], ["d", [["net", "r"]]]]},
                   {"name": "l2", "module": "leaf", "conns": [["i", [["net", "hi"]]], ["o", [["net", "lo"]]]]},
                   {"name": "l3", "module": "leaf", "conns": [["i", [["bit", "p2", 1]]], ["d", [["net", "p2"]]]]},
                   {"name": "l4", "module": "leaf", "conns": [["i", [["net", "one"]]]]},
                   {"name": "lp", "module": "leaf", "positional": True,
                    "conns": [[None, [["bit", "r", 0]]], [None, [["net", "hi"]]], [None, [["net", "p"]]]]}]},
        {"name": "prim", "declared": False, "ports": []},
    ]}


NETS = {"n": (1, 0), "w": (3, 0), "b": (2, 2)}  # name -> (width, lsb) of the nets usable in expressions


def atoms():
    out = []
    for name, (wd, lo) in NETS.items():
        out.append((["net", name], wd))
        if wd > 1:
            for i in range(lo, lo + wd):
                out.append((["bit", name, i], 1))
            for h in range(lo, lo + wd):
                for l in range(lo, h):
                    out.append((["range", name, h, l], h - l + 1))
    out.append((["c", 0], 1))
    out.append((["c", 1], 1))
    return out


def expressions(maxw, triples=False):
    out = [([], 0)]
    at = atoms()
    for a, wd in at:
        if wd <= maxw:
            out.append(([a], wd))
    for (a, wa), (b, wb) in itertools.product(at, at):
        if wa + wb <= maxw:
            out.append(([a, b], wa + wb))
    if triples:
        for (a, wa), (b, wb), (c, wc) in itertools.product(at, at, at):
            if wa + wb + wc <= maxw:
                out.append(([a, b, c], wa + wb + wc))
    return out


def expr_vad(expr, pw, positional, target):
    """one instance port of width pw fed by expr; target in declared-before/after/celldefine/undeclared."""
    prt = ["d", "in", pw - 1 if pw > 1 else None, 0 if pw > 1 else None]
    leaf = {"name": "leaf", "ports": [["i", "in", None, None], prt]}
    if target == "celldefine":
        leaf["celldefine"] = True
    if target == "undeclared":
        leaf["declared"] = False
    top = {"name": "top", "ports": [["n", "in", None, None], ["b", "in", 3, 2]], "wires": [["w", 2, 0]],
           "insts": [{"name": "u", "module": "leaf", "positional": positional,
                      "conns": [["i", [["bit", "w", 0]]], ["d", expr]]},
                     {"name": "k", "module": "keep", "conns": [["x", [["net", "w"]]], ["y", [["net", "b"]]], ["z", [["net", "n"]]]]}]}
    if target == "undeclared" and positional:
        # a never-declared module used with positional maps more than once: the same nameless ports serve every use
        top["insts"].insert(1, {"name": "u2", "module": "leaf", "positional": True, "conns": [["i", [["bit", "w", 1]]], ["d", expr]]})
        top["insts"].append({"name": "u3", "module": "leaf", "positional": True, "conns": [["i", [["net", "n"]]], ["d", expr]]})
    keep = {"name": "keep", "declared": False, "ports": []}
    mods = [leaf, top, keep] if target in ("before", "celldefine") else [top, leaf, keep]
    return {"top": "top", "modules": mods}


def chain_vad(depth=4):
    """a chain of `depth` modules, each instancing the next lower one (plus a side leaf)."""
    mods = []
    names = [chr(ord("a") + i) for i in range(depth)]
    for i, nm in enumerate(names):
        m = {"name": nm, "ports": [["x", "in", None, None]], "insts": []}
        if i > 0:
            m["insts"].append({"name": "i" + names[i - 1], "module": names[i - 1], "conns": [["x", [["net", "x"]]]]})
        mods.append(m)
    return {"top": names[-1], "modules": mods}


ARCH_LIB = {
    # the device library: port directions of the primitives (more ports than the design happens to use), one of
    # them with an escaped name, and a module the design does not use
    "prim": {"name": "prim", "ports": [["x", "in", None, None], ["z", "out", 1, 0], ["q", "inout", None, None], ["extra", "in", None, None]]},
    "\\$p.2": {"name": "\\$p.2", "ports": [["O", "out", None, None], ["I", "in", None, None], ["E", "in", None, None]]},
    "other": {"name": "other", "ports": [["u", "in", None, None]], "celldefine": True},
    # a library cell that lacks a port the design connects: the read may be refused as a whole, not half applied
    "prim-short": {"name": "prim", "ports": [["x", "in", None, None], ["q", "inout", None, None]]},
}


def arch_vad():
    vad = base_vad()
    vad["modules"][0]["insts"].append({"name": "e0", "module": "\\$p.2", "conns": [["I", [["net", "a"]]], ["O", [["bit", "w", 0]]]]})
    vad["modules"].append({"name": "\\$p.2", "declared": False, "ports": []})
    return vad


def parse_text(text):
    s = core.sdn()
    path = os.path.join(core.scratch_dir(), "in_%d.v" % os.getpid())
    with open(path, "w") as f:
        f.write(text)
    with core.quiet():
        return s.parse(path)


def worker(case):
    kind = case[0]
    core.reset_world()
    core.set_order(case[-1])
    probs = []
    alt = True if kind == "alt" else "late" if kind == "late" else False
    style = "header"
    if kind in ("base", "alt", "late"):
        _, order, style, comments, _ = case
        vad = base_vad()
        text = vw.render(vad, order=list(order), style=style, comments=comments, alt=alt)
        first = [m for m in vad["modules"] if m.get("declared", True)][order[0]]["name"]
        tag = "%s:%s:%s" % (kind, style, "top-first" if first == "top" else "top-later")
    elif kind == "arch":
        # the design read together with a device library (sdn.parse(file, architecture=library file))
        _, present, liborder, libstyle, order, _ = case
        vad = arch_vad()
        text = vw.render(vad, order=list(order))
        libmods = [ARCH_LIB[k] for k in present]
        libtext = vw.render({"modules": libmods}, order=[i for i in liborder if i < len(libmods)], style=libstyle, comments=True)
        tag = "architecture:%s:%s" % ("+".join(k.strip("\\") for k in present), libstyle)
    elif kind == "chain":
        _, order, _ = case
        vad = chain_vad(len(order))
        text = vw.render(vad, order=list(order))
        tag = "chain:%d" % len(order)
    else:
        _, expr, pw, positional, target = case[:5]
        style = case[5] if len(case) > 6 else "header"
        vad = expr_vad(expr, pw, positional, target)
        text = vw.render(vad, style=style)
        shape = "+".join(a[0] for a in expr) or "empty"
        ew = len(vw.expand(expr, {k: (v[0], v[1], True) for k, v in NETS.items()}))
        tag = "expr:%s:%s:%s:%s%s" % (shape, "full" if ew == pw else "narrow", "positional" if positional else "named", target,
                                     ":ansi" if style == "ansi" else "")
    key = core.digest(text)
    exp = vw.expected(vad, style, alt)
    try:
        if kind == "arch":
            key = core.digest((text, libtext))
            for key_ in present:
                name = ARCH_LIB[key_]["name"]
                if name in exp["primitives"]:
                    dirs = {p[0]: p[1] for p in ARCH_LIB[key_]["ports"]}
                    exp["primitives"][name] = [(pn, dirs.get(pn, "undef"), wd) for pn, _, wd in exp["primitives"][name]]
            s = core.sdn()
            d = core.scratch_dir()
            pv, pl = os.path.join(d, "in_%d.v" % os.getpid()), os.path.join(d, "lib_%d.v" % os.getpid())
            with open(pv, "w") as f:
                f.write(text)
            with open(pl, "w") as f:
                f.write(libtext)
            with core.quiet():
                n = s.parse(pv, architecture=pl)
        else:
            n = parse_text(text)
    except Exception as ex:
        if kind == "arch" and "prim-short" in present:
            return {"key": key, "nontrivial": True, "outcome": "refused", "problems": probs, "transitions": 1}
        probs.append(("reader-rejected-valid-source:%s:%s" % (type(ex).__name__, tag), repr(ex)[:300]))
        return {"key": key, "nontrivial": True, "outcome": "raised", "problems": probs, "transitions": 1}
    got = vcanon.extract(n)
    d = vcanon.diff(exp, got)
    if d:
        probs.append(("parsed-design-differs:%s:%s" % (d[0], tag), d[1][:400]))
    for c, dd in wf.wf_netlist(n) + wf.shared_metadata(n):
        probs.append(("malformed-netlist:%s:%s" % (c, tag), dd))
    return {"key": key, "nontrivial": True, "outcome": "ok", "problems": probs, "transitions": 1}


engine_b.WORKERS[ID] = worker


def cases(tier):
    out = []
    for order in itertools.permutations(range(3)):
        for style in ("header", "ansi"):
            for comments in (False, True, "dense"):
                for o in core.ORDER_VARIANTS:
                    out.append(("base", list(order), style, comments, o))
                    # the same design in the other documented spellings (`timescale, skipped `ifdef and UDP,
                    # comma lists, net types, defparam)
                    out.append(("alt", list(order), style, comments, o))
                    out.append(("late", list(order), style, comments, o))   # ... and nets declared after their use
    for depth in (3, 4) if tier == "quick" else (3, 4, 5):
        for order in itertools.permutations(range(depth)):
            out.append(("chain", list(order), "asc"))
    # a chain twelve modules deep (all 12! orders are out of reach): bottom-up and top-down, every rotation of both,
    # and the lowest module first followed by the rest top-down / bottom-up
    deep = 12
    up = list(range(deep))
    orders = []
    for k in range(deep):
        orders.append(up[k:] + up[:k])
        orders.append(up[::-1][k:] + up[::-1][:k])
    orders += [[0] + up[:0:-1], [0, deep - 1] + up[1:deep - 1], [deep - 1] + up[:deep - 1], up[1:] + [0]]
    for order in orders:
        if ("chain", order, "asc") not in out:
            out.append(("chain", order, "asc"))
    # with a device library: every subset of the library's modules, in every order, both port styles
    names = list(ARCH_LIB)
    for r in range(len(names) + 1):
        for present in itertools.combinations(names, r):
            if "prim" in present and "prim-short" in present:
                continue
            for liborder in itertools.permutations(range(len(present))):
                for libstyle in ("header", "ansi"):
                    for order in ([0, 1, 2], [2, 1, 0]):
                        out.append(("arch", list(present), list(liborder), libstyle, order, "asc"))
    # thorough: port widths up to 5 and concatenations of three items
    for pw in (1, 2, 3) if tier == "quick" else (1, 2, 3, 4, 5):
        for expr, wd in expressions(pw, triples=(tier != "quick")):
            for positional in (False, True):
                for target in ("before", "after", "celldefine", "undeclared"):
                    if target == "undeclared" and wd == 0:
                        continue  # an empty map on a never-declared module gives no width
                    if positional and wd == 0:
                        continue  # an empty positional connection is not in the documented subset
                    out.append(("expr", expr, pw, positional, target, "asc"))
                    if target != "undeclared":
                        out.append(("expr", expr, pw, positional, target, "ansi", "asc"))
    return out


def run(tier, seed):
    cov = core.Coverage(
        "Engine B: Verilog texts rendered by an independent writer - a rich base design in every module order x "
        "header/ANSI ports x comments, and every connection expression of the grammar up to the port width (1..3; 1..5 with three-item concatenations in the thorough tier) x "
        "named/positional x declared before/after/`celldefine/never - are parsed by the real reader; the bit-level "
        "structure (cables, per-bit endpoints, instances with parameters/attributes, assigns, primitives, top) must "
        "equal the model; states = distinct texts")
    found = {}
    deadline = time.time() + (900 if tier == "quick" else 6000)
    cs = cases(tier)
    k = seed % 7
    engine_b.run_cases(ID, cs[k:] + cs[:k], cov, found, deadline, level="verilog-texts/" + tier)
    engine_b.finish(cov)
    return cov, found


def replay(case):
    return engine_b.replay_case(case)
