"""Shared by C01 / C02: bulk removals at scale.  For every container kind, every size 1..N and EVERY subset of the
members (as a list and as a set), a fresh netlist is built, the subset is removed with the bulk call, and the result
is compared with the obvious model (the members not named, in their old order) and with the invariants of the
property.  Engine A covers bulk calls naming at most two elements of at most three; a shortcut that is exact for
one or two removals (or for a contiguous tail) needs three scattered removals out of four or more to show."""
import itertools

from vlib import core, wf
from vlib.world import World

KINDS = ("port.pins", "cable.wires", "definition.ports", "definition.cables", "definition.children",
         "library.definitions", "netlist.libraries", "wire.pins")


def cases(tier):
    nmax = 6 if tier == "quick" else 8
    out = []
    for kind in KINDS:
        for n in range(1, nmax + 1):
            for r in range(0, n + 1):
                for sub in itertools.combinations(range(n), r):
                    for coll in ("list", "set"):
                        if coll == "set" and (r < 2 or (tier == "quick" and n > 5)):
                            continue
                        out.append(("bulk", kind, n, list(sub), coll))
    return out


def build(kind, n):
    """a netlist in which the container of `kind` has n members; returns (netlist, container, members, remover)"""
    s = core.sdn()
    nl = s.Netlist(name="n")
    lib = nl.create_library(name="l")
    leaf = lib.create_definition(name="leaf")
    lp = leaf.create_port(name="p", pins=1)
    d = lib.create_definition(name="d")
    top = lib.create_definition(name="top")
    if kind == "port.pins":
        port = d.create_port(name="bus", pins=n)
        cab = d.create_cable(name="inner", wires=n)
        for w, p in zip(cab.wires, port.pins):
            w.connect_pin(p)
        u0, u1 = top.create_child(name="u0", reference=d), top.create_child(name="u1", reference=d)
        oc = top.create_cable(name="outer", wires=n)
        for w, p in zip(oc.wires, port.pins):
            w.connect_pin(u0.pins[p])
        nl.top_instance = top
        return nl, port, list(port.pins), port.remove_pins_from, "pins"
    if kind == "cable.wires":
        cab = d.create_cable(name="c", wires=n)
        return nl, cab, list(cab.wires), cab.remove_wires_from, "wires"
    if kind == "definition.ports":
        ports = [d.create_port(name="p%d" % i, pins=1) for i in range(n)]
        u0 = top.create_child(name="u0", reference=d)
        oc = top.create_cable(name="outer", wires=n)
        for w, p in zip(oc.wires, ports):
            w.connect_pin(u0.pins[p.pins[0]])
        nl.top_instance = top
        return nl, d, ports, d.remove_ports_from, "ports"
    if kind == "definition.cables":
        cabs = [d.create_cable(name="c%d" % i, wires=1) for i in range(n)]
        return nl, d, cabs, d.remove_cables_from, "cables"
    if kind == "definition.children":
        kids = [d.create_child(name="x%d" % i, reference=leaf) for i in range(n)]
        cab = d.create_cable(name="c", wires=1)
        for x in kids:
            cab.wires[0].connect_pin(x.pins[lp.pins[0]])
        return nl, d, kids, d.remove_children_from, "children"
    if kind == "library.definitions":
        l2 = nl.create_library(name="l2")
        defs = [l2.create_definition(name="d%d" % i) for i in range(n)]
        return nl, l2, defs, l2.remove_definitions_from, "definitions"
    if kind == "netlist.libraries":
        n2 = s.Netlist(name="n2")
        libs = [n2.create_library(name="l%d" % i) for i in range(n)]
        return n2, n2, libs, n2.remove_libraries_from, "libraries"
    if kind == "wire.pins":
        cab = d.create_cable(name="c", wires=1)
        kids = [d.create_child(name="x%d" % i, reference=leaf) for i in range(n)]
        pins = [x.pins[lp.pins[0]] for x in kids]
        for p in pins:
            cab.wires[0].connect_pin(p)
        return nl, cab.wires[0], pins, cab.wires[0].disconnect_pins_from, "pins"
    raise KeyError(kind)


def worker(case, invariants):
    _, kind, n, sub, coll = case
    core.reset_world()
    core.set_order("asc")
    nl, cont, members, remover, attr = build(kind, n)
    chosen = [members[i] for i in sub]
    arg = chosen if coll == "list" else set(chosen)
    probs = []
    tag = "%s:%d-of-%d:%s" % (kind, len(sub), n, "scattered" if sub and sub != list(range(sub[0], sub[0] + len(sub))) else "contiguous")
    try:
        remover(arg)
    except Exception as ex:
        probs.append(("bulk-removal-raised:%s:%s" % (type(ex).__name__, tag), "%r: members %s of %d" % (ex, sub, n)))
        return {"key": core.digest(case), "nontrivial": True, "outcome": "raised", "problems": probs, "transitions": 1}
    want = [m for i, m in enumerate(members) if i not in sub]
    now = list(getattr(cont, attr))
    if len(now) != len(want) or any(a is not b for a, b in zip(now, want)):
        probs.append(("bulk-removal-wrong-members:" + tag, "removing members %s of %d leaves positions %s" % (
            sub, n, [next((i for i, m in enumerate(members) if m is x), "?") for x in now])))
    w = World()
    w.add(nl)
    for m in members:
        w.add(m)
    w.discover()
    for c, d in invariants(w):
        probs.append(("%s:after-bulk-removal:%s" % (c, tag), d))
    return {"key": core.digest(case), "nontrivial": len(sub) > 0, "outcome": "ok", "problems": probs, "transitions": 1}
