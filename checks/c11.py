"""C11 - hierarchical references: one per occurrence, canonical, validity tracks edits (Engine B)."""
import time

from vlib import core, design, elab, engine_b
from checks import _hier

ID = "C11"
LEVEL = "model_checking"
ASSUMPTIONS = [
    "input space: the F_hier family (+ unnamed-item variant); query roots: netlist, library, definition, instance, "
    "port, cable, inner/outer pin, wire, hierarchical reference; recursive on/off; then every single breaking edit",
    "root semantics per the docstrings ('items within an object'): netlist = the top occurrence; reference = that "
    "occurrence; instance/definition/library = every occurrence of the instance / of the definition's instances; "
    "port/pin/cable/wire = every occurrence of that element; other combinations are checked for soundness only",
    "is_unique of an instance reference is read as: valid and its instance has exactly one occurrence below top",
]


def chain(href):
    out = []
    while href is not None:
        out.append(id(href.item))
        href = href.parent
    return tuple(reversed(out))


def items_of(href):
    out = []
    while href is not None:
        out.append(href.item)
        href = href.parent
    return list(reversed(out))


def describe(h):
    return "/".join("%s:%s" % (type(x).__name__, x.get(".NAME", "") if hasattr(x, "get") else "") for x in items_of(h))


class Occ:
    """All occurrences of the elaborated design, as id-chains."""

    def __init__(self, n):
        self.e = e = elab.Elab(n)
        top_ok = (e.top is not None and e.top.reference is not None and e.top.reference.library is not None
                  and e.top.reference.library.netlist is n)
        self.paths = e.instances if top_ok else []
        ids = lambda p: tuple(id(x) for x in p)
        self.inst, self.port, self.pin, self.cable, self.wire = {}, {}, {}, {}, {}
        self.obj = {}
        for p in self.paths:
            self.inst[ids(p)] = p
            ref = p[-1].reference
            if ref is None:
                continue
            for port in ref.ports:
                self.port[ids(p) + (id(port),)] = p + (port,)
                for pin in port.pins:
                    self.pin[ids(p) + (id(port), id(pin))] = p + (port, pin)
            for c in ref.cables:
                self.cable[ids(p) + (id(c),)] = p + (c,)
                for w in c.wires:
                    self.wire[ids(p) + (id(c), id(w))] = p + (c, w)

    def all(self):
        out = {}
        for d in (self.inst, self.port, self.pin, self.cable, self.wire):
            out.update(d)
        return out


def expected_name(seq):
    s = core.sdn()
    names = [x.get(".NAME", "") if hasattr(x, "get") else None for x in seq]
    last = seq[-1]
    idx = ""
    if isinstance(last, s.Wire):
        c = seq[-2]
        if not c.is_scalar:
            idx = "[%d]" % (c.lower_index + list(c.wires).index(last))
        names = names[:-1]
    elif isinstance(last, s.InnerPin):
        p = seq[-2]
        if not p.is_scalar:
            idx = "[%d]" % (p.lower_index + list(p.pins).index(last))
        names = names[:-1]
    return "/".join(names[1:]) + idx


def worker(case):
    probs = []
    kind = case[2] if len(case) > 2 else "query"
    ad, n = _hier.prepare(case)
    s = core.sdn()
    HRef = s.HRef
    if len(case) > 3 and case[3] == "array1":
        # one-element array bundles with a non-zero base index
        for d in n.libraries[0].definitions:
            for c in d.cables:
                if len(c.wires) == 1:
                    c.is_array = True
                    c.lower_index = 5
                    break
            for p_ in d.ports:
                if len(p_.pins) == 1:
                    p_.is_array = True
                    p_.lower_index = 3
                    break
    if len(case) > 3 and case[3] == "after-refused-edits":
        # not from the initial state: every kind of editing call is first refused once (nothing may have changed)
        _hier.refused_prelude(n)
    if len(case) > 3 and case[3] == "case-twins":
        # siblings whose names differ in letter case only (legal under the default policy)
        for d in n.libraries[0].definitions:
            for group in (list(d.children), list(d.cables)):
                named = [x for x in group if x.name]
                if len(named) >= 2:
                    named[1].name = named[0].name.swapcase()
    if len(case) > 3 and case[3] == "unnamed":
        for d in n.libraries[0].definitions:
            for x in list(d.children)[:1]:
                del x.name
            for c in list(d.cables)[:1]:
                del c.name
    if len(case) > 3 and case[3] == "unnamed-all":
        # every instance and cable nameless: siblings share the (absent) name
        for d in n.libraries[0].definitions:
            for x in list(d.children):
                del x.name
            for c in list(d.cables):
                del c.name
    key = core.digest((_hier.key_of(case, n), case[2:]))
    occ = Occ(n)
    tag = case[0][0]
    nq = [0]
    fns = {"hinstances": s.get_hinstances, "hports": s.get_hports, "hpins": s.get_hpins,
           "hcables": s.get_hcables, "hwires": s.get_hwires}
    table = {"hinstances": occ.inst, "hports": occ.port, "hpins": occ.pin, "hcables": occ.cable, "hwires": occ.wire}

    def ask(fname, root, rootkind, expect, **kw):
        nq[0] += 1
        what = "get_%s(%s%s)" % (fname, rootkind, ",recursive" if kw.get("recursive") else "")
        try:
            res = list(fns[fname](root, **kw))
        except Exception as ex:
            probs.append(("query-raised:%s:%s" % (what, type(ex).__name__), repr(ex)))
            return []
        got = [chain(h) for h in res]
        if len(got) != len(set(got)):
            probs.append(("duplicate-reference:" + what, "%s: %d results, %d distinct" % (tag, len(got), len(set(got)))))
        for h in res:
            if not h.is_valid:
                probs.append(("invalid-reference-returned:" + what, tag))
                break
        if expect is not None and set(got) != set(expect):
            k = "omitted" if set(expect) - set(got) else "spurious"
            probs.append(("%s-occurrence:%s" % (k, what), "%s: expected %d got %d (missing %d, extra %d)"
                          % (tag, len(set(expect)), len(set(got)), len(set(expect) - set(got)), len(set(got) - set(expect)))))
        return res

    top_ids = (id(n.top_instance),)
    # ---- netlist and hierarchical-reference roots
    held = {}
    for fname, tab in table.items():
        for rec in (False, True):
            if fname == "hinstances":
                exp = [c for c in tab if len(c) > 1 and (rec or len(c) == 2)]
            else:
                exp = [c for c, seq in tab.items() if rec or sum(1 for x in seq if isinstance(x, s.Instance)) == 1]
            res = ask(fname, n, "netlist", exp, recursive=rec)
            res2 = ask(fname, n, "netlist", exp, recursive=rec)
            if rec:
                for h in res:
                    held[chain(h)] = h
                # canonical: same path -> same object, equal hash
                byc = {chain(h): h for h in res2}
                for h in res:
                    o = byc.get(chain(h))
                    if o is not None and (o is not h or hash(o) != hash(h)):
                        probs.append(("not-canonical:" + fname, "two requests for the same path gave different objects"))
                        break
                for h in res[:40]:
                    seq = items_of(h)
                    if HRef.from_sequence(seq) is not h:
                        probs.append(("not-canonical:from_sequence:" + fname, tag))
                        break
                    if h.name != expected_name(seq):
                        probs.append(("wrong-name:" + fname, "%r != %r" % (h.name, expected_name(seq))))
                        break
                # ... and that name is the key under which the query finds it again
                for h in res[:25]:
                    nm_ = h.name
                    if not nm_ or any(ch in nm_ for ch in "*?"):
                        continue
                    nq[0] += 1
                    back = [chain(x) for x in fns[fname](n, nm_, recursive=True)]
                    if chain(h) not in back:
                        probs.append(("not-found-by-its-own-name:" + fname, "%s(netlist, %r) does not return the reference named %r" % (fname, nm_, nm_)))
                        break
                    # the name as a pattern under the non-default options: exactly the references whose name matches
                    from checks import c13
                    for opts in ({"is_case": False}, {"is_re": True}, {"is_case": False, "is_re": True}):
                        nq[0] += 1
                        try:
                            back = set(chain(x) for x in fns[fname](n, nm_, recursive=True, **opts))
                        except Exception as ex:
                            probs.append(("query-raised:%s:%s" % (fname, type(ex).__name__), "%r %r" % (nm_, opts)))
                            continue
                        wantp = set(chain(x) for x in res if c13.match(x.name, nm_, opts.get("is_case", True), opts.get("is_re", False), ".NAME", "DEFAULT", True))
                        if back != wantp:
                            probs.append(("pattern-options:%s:%s:%s" % ("missing" if wantp - back else "extra", fname, "+".join(sorted(opts))),
                                          "%s(netlist, %r, %r): expected %d got %d" % (fname, nm_, opts, len(wantp), len(back))))
                            break
                    # the name given twice, or next to a wildcard that covers it: still one reference per occurrence
                    for pats in ([nm_, nm_], ["*", nm_], [nm_, "*"]):
                        nq[0] += 1
                        back = [chain(x) for x in fns[fname](n, pats, recursive=True)]
                        if len(back) != len(set(back)):
                            probs.append(("duplicate-reference:%s:pattern-list" % fname, "%s(netlist, %r) returns a reference twice" % (fname, pats)))
                            break
                    # ... and from the netlist together with a reference to *another* branch (the walk of one root
                    # must not disturb the names found from the other; for a root above or below the reference
                    # itself the documentation does not say which of the two relative names applies)
                    others = [pth for pc_, pth in occ.inst.items() if len(pth) == 2 and pth[1] is not items_of(h)[1]
                              and pth[1].reference is not None and len(pth[1].reference.children)]
                    if len(chain(h)) > 2 and others:
                        sub = HRef.from_sequence(list(others[0]))
                        for roots in ([n, sub], [sub, n]):
                            nq[0] += 1
                            back = [chain(x) for x in fns[fname](roots, nm_, recursive=True)]
                            if chain(h) not in back or len(back) != len(set(back)):
                                probs.append(("two-roots:%s" % fname, "%s([netlist, reference to another branch] in either order, %r): %d results, own reference %s"
                                              % (fname, nm_, len(back), "present" if chain(h) in back else "missing")))
                                break
    for pc, path in occ.inst.items():
        href = HRef.from_sequence(list(path))
        depth = len(path)
        for fname, tab in table.items():
            for rec in (False, True):
                if fname == "hinstances":
                    exp = [c for c in tab if len(c) > depth and c[:depth] == pc and (rec or len(c) == depth + 1)]
                else:
                    exp = [c for c, seq in tab.items() if c[:depth] == pc and sum(1 for x in seq if isinstance(x, s.Instance)) >= depth
                           and (rec or sum(1 for x in seq if isinstance(x, s.Instance)) == depth)]
                ask(fname, href, "href", exp, recursive=rec)
    # ---- several hierarchical references as roots at once (names are relative to each root: they may repeat)
    by_depth = {}
    for pc, path in occ.inst.items():
        by_depth.setdefault(len(path), []).append((pc, path))
    for depth, group in by_depth.items():
        if depth < 2 or len(group) < 2:
            continue
        hrefs = [HRef.from_sequence(list(path)) for _, path in group]
        for fname, tab in table.items():
            for rec in (False, True):
                exp = []
                for pc, _ in group:
                    if fname == "hinstances":
                        exp += [c for c in tab if len(c) > depth and c[:depth] == pc and (rec or len(c) == depth + 1)]
                    else:
                        exp += [c for c, seq in tab.items() if c[:depth] == pc and sum(1 for x in seq if isinstance(x, s.Instance)) >= depth
                                and (rec or sum(1 for x in seq if isinstance(x, s.Instance)) == depth)]
                ask(fname, hrefs, "hrefs", exp, recursive=rec)
    # ---- element roots
    seen = set()
    for c, seq in occ.all().items():
        x = seq[-1]
        if id(x) in seen:
            continue
        seen.add(id(x))
        mine = [cc for cc, ss in occ.all().items() if ss[-1] is x]
        if isinstance(x, s.Instance):
            ask("hinstances", x, "instance", mine)
            got = [chain(h) for h in HRef.get_all_hrefs_of_item(x)]
            if sorted(got) != sorted(mine):
                probs.append(("get_all_hrefs_of_item:instance", "%s: expected %d got %d" % (tag, len(mine), len(got))))
            for fname in ("hports", "hpins", "hcables", "hwires"):
                exp = [cc for cc, ss in table[fname].items() if any(cc[:len(m)] == m for m in mine)
                       and [y for y in ss if isinstance(y, s.Instance)][-1] is x]
                ask(fname, x, "instance", exp)
            if x.reference is not None and len(seq) > 1:
                d = x.reference
                dm = [cc for cc, ss in occ.inst.items() if ss[-1].reference is d]
                ask("hinstances", d, "definition", dm)
        else:
            fname = {s.Port: "hports", s.InnerPin: "hpins", s.Cable: "hcables", s.Wire: "hwires"}[
                next(k for k in (s.Port, s.InnerPin, s.Cable, s.Wire) if isinstance(x, k))]
            ask(fname, x, type(x).__name__.lower(), mine)
            got = [chain(h) for h in HRef.get_all_hrefs_of_item(x)]
            if sorted(got) != sorted(mine):
                probs.append(("get_all_hrefs_of_item:" + type(x).__name__.lower(), "%s: expected %d got %d" % (tag, len(mine), len(got))))
            # soundness only for the combinations the docs do not fix
            for other in fns:
                if other != fname:
                    ask(other, x, type(x).__name__.lower(), None)
    for lib in n.libraries:
        exp = [cc for cc, ss in occ.inst.items() if ss[-1].reference is not None and ss[-1].reference.library is lib]
        ask("hinstances", lib, "library", exp)
    # outer pins: occurrences of (instance, inner pin)
    for pc, path in occ.inst.items():
        x = path[-1]
        if len(path) > 1 and x.reference is not None:
            for op in list(x.pins)[:2]:
                mine = [cc for cc, ss in occ.pin.items() if ss[-1] is op.inner_pin and ss[-3] is x]
                ask("hpins", op, "outerpin", mine)
                # ... and the same pin named through an equal handle built from (instance, inner pin)
                proxy = s.OuterPin.from_instance_and_inner_pin(x, op.inner_pin)
                ask("hpins", proxy, "outerpin-by-handle", mine)
                got = sorted(chain(h) for h in HRef.get_all_hrefs_of_item(proxy))
                if got != sorted(chain(h) for h in HRef.get_all_hrefs_of_item(op)):
                    probs.append(("get_all_hrefs_of_item:outerpin-by-handle", "%s: the stored pin and an equal handle give different occurrences" % tag))
    # ---- uniqueness on the unedited design
    cnt = {}
    for cc, ss in occ.inst.items():
        cnt[id(ss[-1])] = cnt.get(id(ss[-1]), 0) + 1
    for cc, h in held.items():
        seq = items_of(h)
        if isinstance(seq[-1], s.Instance):
            if h.is_unique != (cnt.get(id(seq[-1]), 0) == 1):
                probs.append(("is_unique-wrong", "%s: %s reports %s, instance occurs %d times" % (tag, h.name, h.is_unique, cnt.get(id(seq[-1]), 0))))
    if kind == "query":
        return {"key": key, "nontrivial": _hier.sharing(occ.e), "outcome": "ok", "problems": probs, "transitions": nq[0]}
    if kind == "renamed":
        # ---- one renaming edit (nothing is broken): a reference held from before, whose name has already been
        # read, is named after the netlist as it is now, and is found under that name
        names_before = {cc: h.name for cc, h in held.items()}
        renames = list_renames(n)
        ei = case[3]
        if ei >= len(renames):
            return {"key": key, "nontrivial": False, "outcome": "no-such-edit", "problems": probs, "transitions": nq[0]}
        name, fn = renames[ei]
        fn()
        ename = name.split(":")[0]
        changed = 0
        for cc, h in held.items():
            want = expected_name(items_of(h))
            changed += want != names_before[cc]
            if h.name != want:
                probs.append(("stale-name-after:%s" % ename, "%s: after %s the reference reads %r, the netlist says %r" % (tag, name, h.name, want)))
                break
            if not h.is_valid:
                probs.append(("is_valid-wrong-after:%s" % ename, "%s: after %s reference %s reports invalid" % (tag, name, describe(h))))
                break
        for fname in fns:
            nq[0] += 1
            res = list(fns[fname](n, recursive=True))
            for h in res[:30]:
                nm_ = h.name
                if h.name != expected_name(items_of(h)):
                    probs.append(("wrong-name-after:%s:%s" % (ename, fname), "%s: %r != %r" % (tag, h.name, expected_name(items_of(h)))))
                    break
                if not nm_ or any(ch in nm_ for ch in "*?["):
                    continue
                nq[0] += 1
                if chain(h) not in [chain(x) for x in fns[fname](n, nm_, recursive=True)]:
                    probs.append(("not-found-by-its-own-name-after:%s:%s" % (ename, fname), "%s: %r" % (tag, nm_)))
                    break
        return {"key": key, "nontrivial": changed > 0, "outcome": ename, "problems": list(dict.fromkeys(probs)), "transitions": nq[0] + len(held)}
    # ---- one breaking edit, then every held reference is re-judged
    held[top_ids] = HRef.from_sequence([n.top_instance])
    edits = list_edits(n) if kind == "edit" else list_undone(n)
    ei = case[3] if len(case) > 3 else 0
    if ei >= len(edits):
        return {"key": key, "nontrivial": False, "outcome": "no-such-edit", "problems": probs, "transitions": nq[0]}
    name, fn = edits[ei]
    fn()
    occ2 = Occ(n)
    alive = occ2.all()
    cnt = {}
    for cc, ss in occ2.inst.items():
        cnt[id(ss[-1])] = cnt.get(id(ss[-1]), 0) + 1
    nbroken = 0
    for cc, h in held.items():
        want = cc in alive
        nbroken += not want
        got = h.is_valid
        if got != want:
            probs.append(("is_valid-wrong-after:%s" % name.split(":")[0], "%s: after %s reference %s reports valid=%s, elaboration says %s" % (tag, name, describe(h), got, want)))
        seq = items_of(h)
        if isinstance(seq[-1], s.Instance):
            wantu = want and cnt.get(id(seq[-1]), 0) == 1
            if h.is_unique != wantu:
                probs.append(("is_unique-wrong-after:%s" % name.split(":")[0], "%s: after %s: reports %s, expected %s" % (tag, name, h.is_unique, wantu)))
    ename = name.split(":")[0]
    # ... the queries are asked again on the edited design (query -> edit -> query): from the netlist, with the names
    table2 = {"hinstances": occ2.inst, "hports": occ2.port, "hpins": occ2.pin, "hcables": occ2.cable, "hwires": occ2.wire}
    if n.top_instance is not None and n.top_instance.reference is not None:
        for fname, tab in table2.items():
            exp = set(c for c in tab if len(c) > 1) if fname == "hinstances" else set(tab)
            nq[0] += 1
            try:
                res = list(fns[fname](n, recursive=True))
            except Exception as ex:
                probs.append(("query-raised-after:%s:%s:%s" % (ename, fname, type(ex).__name__), repr(ex)[:120]))
                continue
            got = set(chain(h) for h in res)
            if got != exp:
                probs.append(("occurrences-wrong-after:%s:%s" % (ename, fname), "%s: expected %d got %d" % (tag, len(exp), len(got))))
            for h in res[:25]:
                nm_ = h.name
                if not nm_ or any(ch in nm_ for ch in "*?["):
                    continue
                nq[0] += 1
                if chain(h) not in [chain(x) for x in fns[fname](n, nm_, recursive=True)]:
                    probs.append(("not-found-by-its-own-name-after:%s:%s" % (ename, fname), "%s: %r" % (tag, nm_)))
                    break
    # ... and from the references held from before the edit: whatever comes back must be a reference of the design
    # as it is now
    for cc, h in list(held.items())[:60]:
        if cc in alive:
            continue
        for fname in fns:
            nq[0] += 1
            try:
                res = list(fns[fname](h))
            except Exception:
                continue   # refusing a stale root is fine
            for r in res:
                if not r.is_valid or chain(r) not in alive:
                    probs.append(("stale-root-yields-dead-reference:%s:%s" % (ename, fname), "%s: get_%s(%s) returned %s" % (tag, fname, describe(h), describe(r))))
                    break
    return {"key": key, "nontrivial": nbroken > 0, "outcome": ename, "problems": list(dict.fromkeys(probs)), "transitions": nq[0] + len(held)}


def list_edits(n):
    """Every single breaking edit of the design, in a fixed order."""
    out = []
    for lib in n.libraries:
        for d in lib.definitions:
            for x in d.children:
                out.append(("remove_child:%s/%s" % (d.name, x.name), lambda d=d, x=x: d.remove_child(x)))
                out.append(("unreference:%s/%s" % (d.name, x.name), lambda x=x: setattr(x, "reference", None)))
            for c in d.cables:
                out.append(("remove_cable:%s/%s" % (d.name, c.name), lambda d=d, c=c: d.remove_cable(c)))
                for w in list(c.wires)[:1]:
                    out.append(("remove_wire:%s/%s" % (d.name, c.name), lambda c=c, w=w: c.remove_wire(w)))
            for p in d.ports:
                out.append(("remove_port:%s/%s" % (d.name, p.name), lambda d=d, p=p: d.remove_port(p)))
                for pin in list(p.pins)[:1]:
                    out.append(("remove_pin:%s/%s" % (d.name, p.name), lambda p=p, pin=pin: p.remove_pin(pin)))
            out.append(("remove_definition:%s" % d.name, lambda lib=lib, d=d: lib.remove_definition(d)))
        out.append(("remove_library:%s" % lib.name, lambda lib=lib: n.remove_library(lib)))
    out.append(("top=None", lambda: setattr(n, "top_instance", None)))
    for lib in n.libraries:
        for d in lib.definitions:
            if d is not n.top_instance.reference and len(d.children):
                out.append(("top=%s" % d.name, lambda d=d: setattr(n, "top_instance", d)))
                for x in d.references:
                    out.append(("top=instance-of-%s" % d.name, lambda x=x: setattr(n, "top_instance", x)))
                    break
    return out


def list_renames(n):
    """Edits that change what references are called without breaking any: renames along the paths, a bit inserted
    in front of a bus, another base index."""
    s = core.sdn()
    out = []
    for lib in n.libraries:
        for d in lib.definitions:
            for x in list(d.children)[:2]:
                out.append(("instance-renamed:%s/%s" % (d.name, x.name), lambda x=x: setattr(x, "name", x.name + "_r")))
            for c in list(d.cables)[:2]:
                out.append(("cable-renamed:%s/%s" % (d.name, c.name), lambda c=c: setattr(c, "name", c.name + "_r")))
                out.append(("wire-inserted-in-front:%s/%s" % (d.name, c.name), lambda c=c: c.add_wire(s.Wire(), position=0)))
                out.append(("cable-rebased:%s/%s" % (d.name, c.name), lambda c=c: (setattr(c, "is_array", True), setattr(c, "lower_index", c.lower_index + 4))))
            for p_ in list(d.ports)[:1]:
                out.append(("port-renamed:%s/%s" % (d.name, p_.name), lambda p_=p_: setattr(p_, "name", p_.name + "_r")))
                out.append(("port-rebased:%s/%s" % (d.name, p_.name), lambda p_=p_: (setattr(p_, "is_array", True), setattr(p_, "lower_index", p_.lower_index + 2))))
    return out


def list_undone(n):
    """Edits that take something out and put it back where it was: nothing is broken afterwards."""
    out = []
    for lib in n.libraries:
        for d in lib.definitions:
            for x in list(d.children)[:2]:
                i = list(d.children).index(x)
                out.append(("child-removed-and-added-back:%s/%s" % (d.name, x.name), lambda d=d, x=x, i=i: (d.remove_child(x), d.add_child(x, position=i))))
                out.append(("children-removed-in-bulk-and-added-back:%s/%s" % (d.name, x.name), lambda d=d, x=x, i=i: (d.remove_children_from([x]), d.add_child(x, position=i))))
                out.append(("reference-cleared-and-set-again:%s/%s" % (d.name, x.name), lambda x=x, r=x.reference: (setattr(x, "reference", None), setattr(x, "reference", r))))
            for c in list(d.cables)[:1]:
                if not any(w.pins for w in c.wires):
                    i = list(d.cables).index(c)
                    out.append(("cable-removed-and-added-back:%s/%s" % (d.name, c.name), lambda d=d, c=c, i=i: (d.remove_cables_from([c]), d.add_cable(c, position=i))))
            if d is not n.top_instance.reference:
                i = list(lib.definitions).index(d)
                out.append(("definition-removed-and-added-back:%s" % d.name, lambda lib=lib, d=d, i=i: (lib.remove_definitions_from([d]), lib.add_definition(d, position=i))))
        i = list(n.libraries).index(lib)
        out.append(("library-removed-and-added-back:%s" % lib.name, lambda lib=lib, i=i: (n.remove_library(lib), n.add_library(lib, position=i))))
    top = n.top_instance
    out.append(("top-cleared-and-set-again", lambda: (setattr(n, "top_instance", None), setattr(n, "top_instance", top))))
    return out


engine_b.WORKERS[ID] = worker
MAX_EDITS = 40


def cases(tier):
    out = []
    for desc in design.family_hier(tier, variants=("plain",)):
        # queries do not depend on the wiring beyond connectivity-free structure: all wirings for the small
        # skeletons, the first wiring of each definition for the others
        small = desc[0] in ("K1-chain2", "K8-bus") or sum(desc[1]) <= 1
        if tier == "thorough" or small:
            for order in core.ORDER_VARIANTS:
                out.append((desc, order, "query"))
        elif sum(desc[1]) % 3 == 0 or desc[0] in ("K10-wire-only-shared", "K4-wire-only"):
            # the queries depend on the structure, not on the wiring: a third of the wirings of the bigger
            # skeletons (every wiring in the thorough tier)
            out.append((desc, "asc", "query"))
    for desc in design.shape_family(4 if tier == "thorough" else 3):
        out.append((desc, "asc", "query"))
        out.append((desc, "asc", "query", "after-refused-edits"))
        for ei in range(MAX_EDITS if tier == "thorough" else 12):
            out.append((desc, "asc", "edit", ei))
        for ei in range(24 if tier == "thorough" else 8):
            out.append((desc, "asc", "undone", ei))
    for sk in design.SKELETONS:
        deep = design.SKELETONS[sk][2] == "thorough" and tier != "thorough"
        nd = len(design.SKELETONS[sk][0])
        # (the deep skeletons enter the quick tier with one wiring and one order)
        for first in ((0,) * nd, (1,) + (0,) * (nd - 1)) if not deep else ((1,) + (0,) * (nd - 1),):
            out.append(((sk, first, "plain"), "asc", "query", "after-refused-edits"))
            out.append(((sk, first, "plain"), "asc", "query", "case-twins"))
            out.append(((sk, first, "plain"), "asc", "query", "unnamed"))
            out.append(((sk, first, "plain"), "asc", "query", "unnamed-all"))
            out.append(((sk, first, "plain"), "asc", "query", "array1"))
            for ei in range(MAX_EDITS):
                for order in (core.ORDER_VARIANTS if not deep else ("asc",)):
                    out.append(((sk, first, "plain"), order, "edit", ei))
            for ei in range(24):
                out.append(((sk, first, "plain"), "asc", "undone", ei))
            for ei in range(30):
                out.append(((sk, first, "plain"), "asc", "renamed", ei))
    return out


def run(tier, seed):
    cov = core.Coverage(
        "Engine B: for every design the five get_h* functions are run from every root kind with recursive on/off and "
        "compared with an independent enumeration of occurrences (no omission, no duplicate, valid, named, canonical "
        "object); then for every skeleton every single breaking edit is applied and every previously obtained "
        "reference is re-judged (is_valid / is_unique) against a fresh elaboration; transitions = queries and "
        "re-judged references; non-trivial = designs with a shared non-leaf definition, or edits that broke a path")
    found = {}
    deadline = time.time() + (900 if tier == "quick" else 6000)
    cs = cases(tier)
    k = seed % 7
    engine_b.run_cases(ID, cs[k:] + cs[:k], cov, found, deadline, level="F_hier/" + tier)
    engine_b.finish(cov)
    return cov, found


def replay(case):
    return engine_b.replay_case(case)
