"""C12 - cross-hierarchy tracing returns exactly the electrically connected net (Engine B)."""
import time

from vlib import core, design, elab, engine_b
from checks import _hier

ID = "C12"
LEVEL = "model_checking"
ASSUMPTIONS = [
    "input space: the F_hier family; every hierarchical wire, pin, cable and port occurrence of every design is a "
    "start point; the top instance is not itself instanced",
    "reference: union-find elaboration over hierarchical wires (vlib/elab.py)",
]


def chain(href):
    out = []
    while href is not None:
        out.append(id(href.item))
        href = href.parent
    return tuple(reversed(out))


def worker(case):
    probs = []
    ad, n = _hier.prepare(case)
    s = core.sdn()
    HRef = s.HRef
    key = _hier.key_of(case, n)
    tag = case[0][0]
    nq = 0
    spans = judge(n, s, tag, probs, "")
    nq += spans[1]
    if len(case) > 2 and case[2] == "edited":
        # not from the initial state: a connection is taken away, everything is asked again; it is put on
        # another wire, everything is asked again (answers must follow the netlist, not an earlier trace)
        top = n.top_instance.reference
        cands = [(w_, p_) for d_ in [top] + [x.reference for x in top.children if x.reference is not None and x.reference.cables]
                 for c_ in d_.cables for w_ in c_.wires for p_ in list(w_.pins)[:1]]
        if cands:
            w_, p_ = cands[-1]
            w_.disconnect_pin(p_)
            nq += judge(n, s, tag, probs, ":after-disconnect")[1]
            other = next((x for c_ in w_.cable.definition.cables for x in c_.wires if x is not w_), None)
            if other is not None:
                other.connect_pin(p_)
                nq += judge(n, s, tag, probs, ":after-reconnect")[1]
    if len(case) > 2 and case[2] == "edited-by-handle":
        # the same two edits on an instance pin, named each time through an equal handle built from
        # (instance, inner pin) instead of the stored pin object
        top = n.top_instance.reference
        cands = [(w_, p_) for d_ in [top] + [x.reference for x in top.children if x.reference is not None and x.reference.cables]
                 for c_ in d_.cables for w_ in c_.wires for p_ in w_.pins if isinstance(p_, s.OuterPin)]
        for w_, p_ in cands[:1] + cands[-1:]:
            if p_.wire is not w_:
                continue
            handle = s.OuterPin.from_instance_and_inner_pin(p_.instance, p_.inner_pin)
            try:
                w_.disconnect_pin(handle)
                nq += judge(n, s, tag, probs, ":after-disconnect-by-handle")[1]
                other = next((x for c_ in w_.cable.definition.cables for x in c_.wires if x is not w_), None)
                if other is not None:
                    other.connect_pin(s.OuterPin.from_instance_and_inner_pin(p_.instance, p_.inner_pin))
                    nq += judge(n, s, tag, probs, ":after-reconnect-by-handle")[1]
            except Exception as ex:
                # a connected instance pin taken off its wire / a free one put on a wire: nothing to refuse
                probs.append(("trace-or-edit-raised:by-handle:%s" % type(ex).__name__, "%s: %r" % (tag, ex)))
    return {"key": key, "nontrivial": spans[0], "outcome": "ok", "problems": list(dict.fromkeys(probs)), "transitions": nq}


def judge(n, s, tag, probs, phase):
    """every start of the design against the independent elaboration; returns (net spans levels, queries made)."""
    HRef = s.HRef
    e = elab.Elab(n)
    nq = 0

    def hw(path, w):
        return tuple(id(x) for x in path) + (id(w.cable), id(w))

    cls_of = {}
    for root, members in e.wire_classes().items():
        sset = frozenset(hw(p, w) for p, w in members)
        for p, w in members:
            cls_of[hw(p, w)] = sset
    spans = any(len(set(len(m) for m in c)) > 1 for c in cls_of.values())

    def ask(fn, root, what, expect, **kw):
        nonlocal nq
        nq += 1
        try:
            got = [chain(h) for h in fn(root, **kw)]
        except Exception as ex:
            probs.append(("query-raised:%s:%s" % (what + phase, type(ex).__name__), repr(ex)))
            return
        if len(got) != len(set(got)):
            probs.append(("duplicate-result:" + what + phase, "%d results, %d distinct" % (len(got), len(set(got)))))
        if set(got) != set(expect):
            kind = "missing" if set(expect) - set(got) else "extra"
            probs.append(("%s:%s" % (kind, what + phase), "%s: expected %d got %d (missing %d, extra %d)"
                          % (tag, len(set(expect)), len(set(got)), len(set(expect) - set(got)), len(set(got) - set(expect)))))

    ALL, INSIDE, OUTSIDE, BOTH = s.ALL, s.INSIDE, s.OUTSIDE, s.BOTH
    by_wire = {}
    for path, w in e.wires:
        me = hw(path, w)
        by_wire.setdefault(id(w), (w, set()))[1].update(cls_of[me])
        href = HRef.from_sequence(list(path) + [w.cable, w])
        touch = "touches=" + "+".join(sorted(set("outer" if isinstance(p, s.OuterPin) else "inner" for p in w.pins)) or ["nothing"])
        ask(s.get_hwires, href, "get_hwires(hwire,ALL):" + touch, cls_of[me], selection=ALL)
        ask(s.get_hwires, href, "get_hwires(hwire,INSIDE)", {me}, selection=INSIDE)
        ask(s.get_hcables, href, "get_hcables(hwire,ALL):" + touch, set(x[:-1] for x in cls_of[me]), selection=ALL)
        # pins attached to the hierarchical wire
        exp = set()
        for p in w.pins:
            if isinstance(p, s.OuterPin):
                exp.add(tuple(id(x) for x in path) + (id(p.instance), id(p.inner_pin.port), id(p.inner_pin)))
            else:
                exp.add(tuple(id(x) for x in path) + (id(p.port), id(p)))
        ask(s.get_hpins, href, "get_hpins(hwire)", exp)
        # the start given as a one-shot iterator (the natural composition get_hpins(get_hwires(...)))
        ask(s.get_hpins, (x for x in [href]), "get_hpins(generator)", exp)
        ask(s.get_hwires, (x for x in [href]), "get_hwires(generator,ALL)", cls_of[me], selection=ALL)
        ask(s.get_hcables, (x for x in [href]), "get_hcables(generator,ALL)", set(x[:-1] for x in cls_of[me]), selection=ALL)
        # the start given as a list the caller keeps: asked twice, the list is left as it was
        roots = [href]
        ask(s.get_hwires, roots, "get_hwires(list,ALL)", cls_of[me], selection=ALL)
        ask(s.get_hcables, roots, "get_hcables(list,ALL)", set(x[:-1] for x in cls_of[me]), selection=ALL)
        ask(s.get_hcables, roots, "get_hcables(list,ALL):again", set(x[:-1] for x in cls_of[me]), selection=ALL)
        ask(s.get_hwires, roots, "get_hwires(list,ALL):again", cls_of[me], selection=ALL)
        ask(s.get_hpins, roots, "get_hpins(list):again", exp)
        if len(roots) != 1 or roots[0] is not href:
            probs.append(("query-changed-the-callers-list" + phase, "%s: a list holding one reference holds %d afterwards" % (tag, len(roots))))
        # a caller's filter selects among the members of the net, it does not stop the trace
        even = lambda h: len(chain(h)) % 2 == 0
        ask(s.get_hwires, href, "get_hwires(hwire,ALL,filter)", set(x for x in cls_of[me] if len(x) % 2 == 0), selection=ALL, filter=even)
        ask(s.get_hwires, href, "get_hwires(hwire,ALL,filter-odd)", set(x for x in cls_of[me] if len(x) % 2 == 1), selection=ALL, filter=lambda h: not even(h))
        ask(s.get_hcables, href, "get_hcables(hwire,ALL,filter)", set(x[:-1] for x in cls_of[me] if len(x) % 2 == 1), selection=ALL, filter=even)
    # element roots: every occurrence of the wire
    for wid, (w, union) in by_wire.items():
        ask(s.get_hwires, w, "get_hwires(wire,ALL)", union, selection=ALL)
    # hierarchical cables
    seen_c = set()
    for path, w in e.wires:
        c = w.cable
        k = tuple(id(x) for x in path) + (id(c),)
        if k in seen_c:
            continue
        seen_c.add(k)
        exp = set()
        for ww in c.wires:
            exp |= cls_of[hw(path, ww)]
        ask(s.get_hwires, HRef.from_sequence(list(path) + [c]), "get_hwires(hcable,ALL)", exp, selection=ALL)
        ask(s.get_hcables, HRef.from_sequence(list(path) + [c]), "get_hcables(hcable,ALL)", set(x[:-1] for x in exp), selection=ALL)
    # hierarchical pins and ports
    for path in e.instances:
        inst = path[-1]
        ref = inst.reference
        if ref is None:
            continue
        for port in ref.ports:
            pexp = set()
            for ip in port.pins:
                inner = hw(path, ip.wire) if ip.wire is not None else None
                outer = None
                if len(path) > 1:
                    op = inst.pins.get(ip)
                    if op is not None and op.wire is not None:
                        outer = hw(path[:-1], op.wire)
                href = HRef.from_sequence(list(path) + [port, ip])
                side = "%s%s" % ("i" if inner else "-", "o" if outer else "-")
                ask(s.get_hwires, href, "get_hwires(hpin,INSIDE)", {inner} - {None}, selection=INSIDE)
                ask(s.get_hwires, href, "get_hwires(hpin,OUTSIDE)", {outer} - {None}, selection=OUTSIDE)
                ask(s.get_hwires, href, "get_hwires(hpin,BOTH)", {inner, outer} - {None}, selection=BOTH)
                allexp = set()
                for x in (inner, outer):
                    if x is not None:
                        allexp |= cls_of[x]
                ask(s.get_hwires, href, "get_hwires(hpin,ALL):" + side, allexp, selection=ALL)
                ask(s.get_hcables, href, "get_hcables(hpin,ALL):" + side, set(x[:-1] for x in allexp), selection=ALL)
                pexp |= allexp
            ask(s.get_hwires, HRef.from_sequence(list(path) + [port]), "get_hwires(hport,ALL)", pexp, selection=ALL)
            ask(s.get_hcables, HRef.from_sequence(list(path) + [port]), "get_hcables(hport,ALL)", set(x[:-1] for x in pexp), selection=ALL)
    return spans, nq


engine_b.WORKERS[ID] = worker


def cases(tier):
    out = []
    for desc in design.family_hier(tier, variants=("plain",)):
        if tier == "thorough" or desc[0] in ("K1-chain2", "K8-bus") or sum(desc[1]) % 9 == 0:
            out.append((desc, "asc", "edited"))
            out.append((desc, "asc", "edited-by-handle"))
            out.append((desc, "asc", "after-refused-edits"))
    for desc in design.shape_family(5 if tier == "thorough" else 4):
        out.append((desc, "asc"))
        out.append((desc, "asc", "after-refused-edits"))
        out.append((desc, "asc", "edited"))
        out.append((desc, "asc", "edited-by-handle"))
    out += [(desc, order) for desc in design.family_hier(tier, variants=("plain", "dangling-nets")) for order in core.ORDER_VARIANTS]
    return out


def run(tier, seed):
    cov = core.Coverage(
        "Engine B: for every design of the F_hier family every hierarchical wire / pin / cable / port occurrence is "
        "used as the start of get_hwires with every selection (and get_hpins for wires); expected sets come from the "
        "independent union-find elaboration; transitions = queries evaluated; states = distinct designs; non-trivial = "
        "designs in which some net spans more than one hierarchy level")
    found = {}
    deadline = time.time() + (900 if tier == "quick" else 6000)
    cs = cases(tier)
    k = seed % 7
    engine_b.run_cases(ID, cs[k:] + cs[:k], cov, found, deadline, level="F_hier/" + tier)
    engine_b.finish(cov)
    return cov, found


def replay(case):
    return engine_b.replay_case(case)
