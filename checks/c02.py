"""C02 - instances mirror their definition (Engine A)."""
import time

from vlib import core, engine_a, scenarios, wf
from vlib.engine_a import Oracle

ID = "C02"
LEVEL = "model_checking"
ASSUMPTIONS = [
    "scope: the scenario seeds, sub-alphabets and depths listed in coverage.bounds_completed",
    "set iteration order explored in two variants",
    "an outer pin counts as 'disappeared' once it has been observed stored on an instance and no longer is",
]


def _by_position(x):
    """(port position, pin position) -> wire of the instance's outer pin there."""
    ref = x.reference
    out = {}
    if ref is None:
        return None
    for i, port in enumerate(ref.ports):
        for j, pin in enumerate(port.pins):
            try:
                out[(i, j)] = x.pins[pin].wire
            except KeyError:
                out[(i, j)] = "missing"
    return out


class C02Oracle(Oracle):
    def state(self, w):
        return wf.inv_c02(w)

    def pre(self, w, ev):
        if ev[0] == "instance.reference=":
            return _by_position(w[ev[1][0]])
        return None

    def step(self, w, ev, outcome, token):
        if token is None or outcome[0] != "ok":
            return []
        x = w[ev[1][0]]
        now = _by_position(x)
        bad = []
        for pos, wire in token.items():
            if wire == "missing":
                continue
            if now is None or now.get(pos) is not wire:
                bad.append(("repoint-moved-connection", "connection at (port,pin)=%s not kept by re-pointing" % (pos,)))
            elif wire is not None:
                op = x.pins[x.reference.ports[pos[0]].pins[pos[1]]]
                if sum(1 for p in wire.pins if p is op) != 1:
                    bad.append(("repoint-wire-lost-pin", "wire at %s no longer lists the outer pin" % (pos,)))
        return bad

    def nontrivial(self, w, ev, outcome):
        if outcome[0] != "ok":
            return False
        for i in w.of_kind("X"):
            if len(w[i].pins):
                return True
        return False


engine_a.ORACLES[ID] = C02Oracle


def run(tier, seed):
    cov = core.Coverage(
        "Engine A: BFS over histories of definition/port/pin edits and instance create/re-point/un-reference/"
        "remove calls; non-trivial = a distinct state, first reached by an accepted call, in which some instance "
        "carries at least one outer pin")
    found = {}
    deadline = time.time() + (900 if tier == "quick" else 6000)
    scns = scenarios.INSTANCE_SCENARIOS
    k = seed % len(scns)
    for scn in scns[k:] + scns[:k]:
        engine_a.explore(ID, scn, tier, cov, found, deadline)
    return cov, found


def replay(case):
    return engine_a.replay_case(case)
