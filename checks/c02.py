"""C02 - instances mirror their definition (Engine A)."""
import time

from vlib import core, engine_a, engine_b, scenarios, wf
from checks import _bulk
from vlib.engine_a import Oracle

ID = "C02"
LEVEL = "model_checking"
ASSUMPTIONS = [
    "scope: the scenario seeds, sub-alphabets and depths listed in coverage.bounds_completed",
    "set iteration order explored in two variants",
    "an outer pin counts as 'disappeared' once it has been observed stored on an instance and no longer is",
]


def _by_position(x):
    """(port position, pin position) -> wire of the instance's outer pin there."""
    ref = x.reference
    out = {}
    if ref is None:
        return None
    for i, port in enumerate(ref.ports):
        for j, pin in enumerate(port.pins):
            try:
                out[(i, j)] = x.pins[pin].wire
            except KeyError:
                out[(i, j)] = "missing"
    return out


class C02Oracle(Oracle):
    def state(self, w):
        return wf.inv_c02(w) + wf.held_views(w)

    def pre(self, w, ev):
        if ev[0] == "instance.reference=":
            return _by_position(w[ev[1][0]])
        if ev[0] == "clone":
            return ("clone", len(w.pool))
        return None

    def step(self, w, ev, outcome, token):
        if token is None or outcome[0] != "ok":
            return []
        if isinstance(token, tuple) and token[0] == "clone":
            # the copy's instances carry their connections on the pins that correspond to the original's
            src = w[ev[1][0]]
            cp = next((w[i] for i in range(token[1], len(w.pool)) if type(w[i]) is type(src)), None)
            bad = []
            if cp is not None and w.kind[w.idx(src)] in "NL":
                def shape(root):
                    out = {}
                    libs = root.libraries if w.kind[w.idx(src)] == "N" else [root]
                    for l in libs:
                        for d in l.definitions:
                            for x in d.children:
                                if x.reference is None:
                                    continue
                                for i, port in enumerate(x.reference.ports):
                                    for j, pin in enumerate(port.pins):
                                        op = x.pins.get(pin)
                                        wr = op.wire if op is not None else None
                                        out[(l.name, d.name, x.name, i, j)] = None if wr is None else (wr.cable.name, list(wr.cable.wires).index(wr))
                    return out
                a, b = shape(src), shape(cp)
                if a != b:
                    k = next(k for k in sorted(set(a) | set(b), key=repr) if a.get(k) != b.get(k))
                    bad.append(("clone-moved-connection", "instance pin %s: original on %s, copy on %s" % (k, a.get(k), b.get(k))))
            return bad
        x = w[ev[1][0]]
        now = _by_position(x)
        bad = []
        for pos, wire in token.items():
            if wire == "missing":
                continue
            if now is None or now.get(pos) is not wire:
                bad.append(("repoint-moved-connection", "connection at (port,pin)=%s not kept by re-pointing" % (pos,)))
            elif wire is not None:
                op = x.pins[x.reference.ports[pos[0]].pins[pos[1]]]
                if sum(1 for p in wire.pins if p is op) != 1:
                    bad.append(("repoint-wire-lost-pin", "wire at %s no longer lists the outer pin" % (pos,)))
        return bad

    def nontrivial(self, w, ev, outcome):
        if outcome[0] != "ok":
            return False
        for i in w.of_kind("X"):
            if len(w[i].pins):
                return True
        return False


engine_a.ORACLES[ID] = C02Oracle


def run(tier, seed):
    cov = core.Coverage(
        "Engine A: BFS over histories of definition/port/pin edits and instance create/re-point/un-reference/"
        "remove calls; non-trivial = a distinct state, first reached by an accepted call, in which some instance "
        "carries at least one outer pin")
    found = {}
    deadline = time.time() + (900 if tier == "quick" else 6000)
    scns = scenarios.INSTANCE_SCENARIOS + scenarios.S18[:1] + scenarios.S18[2:]
    k = seed % len(scns)
    for scn in scns[k:] + scns[:k]:
        engine_a.explore(ID, scn, tier, cov, found, deadline)
    # bulk removals at scale: every subset of the members of every container kind
    t0 = time.time()
    bcs = _bulk.cases(tier)
    nb = 0
    for case, r in zip(bcs, core.pimap(engine_b._call, [(ID, c) for c in bcs], 64)):
        nb += r["transitions"]
        for sig, what in r.get("problems", ()):
            f = found.get(sig)
            if f is None:
                found[sig] = {"count": 1, "what": what, "case": {"engine": "B", "worker": ID, "case": case}}
            else:
                f["count"] += 1
    cov.add("transitions", nb)
    cov.add("evaluations", nb)
    cov.add("traces_validated_against_impl", nb)
    cov["bounds_completed"]["bulk-removals"] = {"cases": len(bcs), "max_members": 6 if tier == "quick" else 8, "wall_s": round(time.time() - t0, 2)}
    return cov, found


engine_b.WORKERS[ID] = lambda case: _bulk.worker(case, wf.inv_c02)


def replay(case):
    if case.get("engine") == "B":
        return engine_b.replay_case(case)
    return engine_a.replay_case(case)
