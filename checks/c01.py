"""C01 - ownership and pin-wire links consistent under any edit history (Engine A)."""
import time

from vlib import core, engine_a, engine_b, scenarios, wf
from checks import _bulk
from vlib.engine_a import Oracle

ID = "C01"
LEVEL = "model_checking"
ASSUMPTIONS = [
    "scope: the scenario seeds, sub-alphabets and depths listed in coverage.bounds_completed",
    "set iteration order explored in two variants (ascending / descending creation serial)",
    "throw-away proxy OuterPins passed as arguments are not state; stored outer pins are",
]


class C01Oracle(Oracle):
    def state(self, w):
        return wf.inv_c01(w)

    def pre(self, w, ev):
        name = ev[0]
        if name.endswith("=") and name.split(".")[1][:-1] in ("libraries", "definitions", "ports", "cables", "children", "pins", "wires"):
            cont = w[ev[1][0]]
            return [id(x) for x in getattr(cont, name.split(".")[1][:-1])]
        return None

    def step(self, w, ev, outcome, token):
        if token is None:
            return []
        cont = w[ev[1][0]]
        now = [id(x) for x in getattr(cont, ev[0].split(".")[1][:-1])]
        bad = []
        if sorted(now) != sorted(token):
            bad.append(("reorder-changed-membership", "%s: members differ by identity after %s" % (ev[0], outcome[0])))
        if outcome[0] == "raised" and now != token:
            bad.append(("refused-reorder-changed-order", ev[0]))
        return bad

    def nontrivial(self, w, ev, outcome):
        return outcome[0] == "ok"


engine_a.ORACLES[ID] = C01Oracle


def run(tier, seed):
    cov = core.Coverage(
        "Engine A: BFS over histories of real API calls from the scenario seeds; a state is the identity-level "
        "snapshot of all pool objects plus the namespace manager's hidden tables; non-trivial = a distinct state "
        "first reached by an accepted (state-changing) call")
    found = {}
    deadline = time.time() + (900 if tier == "quick" else 6000)
    # refused calls matter as much as accepted ones: S8 (compound constructors with names) and the naming scopes
    # under the DEFAULT policy bring the refusals by the naming rules
    scns = scenarios.STRUCTURAL + [scenarios.S8, scenarios.S15] + scenarios.S18 + [x for x in scenarios.naming_scenarios() if x.policy == "DEFAULT"]
    k = seed % len(scns)
    for scn in scns[k:] + scns[:k]:
        engine_a.explore(ID, scn, tier, cov, found, deadline)
    cov["coupling"] = scenarios.coupling_matrix(scns)
    # bulk removals at scale: every subset of the members of every container kind
    t0 = time.time()
    bcs = _bulk.cases(tier)
    nb = 0
    for case, r in zip(bcs, core.pimap(engine_b._call, [(ID, c) for c in bcs], 64)):
        nb += r["transitions"]
        for sig, what in r.get("problems", ()):
            f = found.get(sig)
            if f is None:
                found[sig] = {"count": 1, "what": what, "case": {"engine": "B", "worker": ID, "case": case}}
            else:
                f["count"] += 1
    cov.add("transitions", nb)
    cov.add("evaluations", nb)
    cov.add("traces_validated_against_impl", nb)
    cov["bounds_completed"]["bulk-removals"] = {"cases": len(bcs), "max_members": 6 if tier == "quick" else 8, "wall_s": round(time.time() - t0, 2)}
    return cov, found


engine_b.WORKERS[ID] = lambda case: _bulk.worker(case, wf.inv_c01)


def replay(case):
    if case.get("engine") == "B":
        return engine_b.replay_case(case)
    return engine_a.replay_case(case)
