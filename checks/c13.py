"""C13 - query filters mean what they say (Engine B over the option product, metamorphic oracle)."""
import fnmatch
import itertools
import re
import time

from vlib import core, engine_b

ID = "C13"
LEVEL = "model_checking"
ASSUMPTIONS = [
    "one netlist per naming policy whose sibling names collide under case folding and prefixing (a, A, ab, a1, "
    "unnamed), with EDIF identifiers and a user key k carrying duplicate values; 13 query functions x 11 root kinds x "
    "selection x recursive x key x patterns derived from the names present x is_case x is_re x filter x fast lookup",
    "reference: result(pattern) == [x in result(wildcard) | match(value(x), pattern)] with match = equality / "
    "case-folded equality for EDIF identifiers under the EDIF policy / fnmatchcase / case-folded fnmatch / re.fullmatch",
]


def build(policy):
    s = core.sdn()
    popped = policy.endswith("+pop")
    renamed = policy.endswith("+ren")
    refused = policy.endswith("+refused")
    policy = policy.split("+")[0]
    s.namespace_manager.default = policy
    ids = itertools.count()

    def tagit(el, kv):
        k_ = next(ids)
        el["EDIF.identifier"] = ("Id%d" if k_ % 2 else "i%d") % k_     # (some carry capital letters)
        el["k"] = kv
        return el

    n = s.Netlist(name="a")
    la = tagit(n.create_library(name="a"), "v")
    lA = tagit(n.create_library(name="A"), "v")
    lab = tagit(n.create_library(name="ab"), "w")
    leaf = tagit(la.create_definition(name="a1"), "w")
    leaf.create_port(name="p", pins=1)
    da = tagit(la.create_definition(name="a"), "v")
    tagit(la.create_definition(name="A"), "v")
    ab1 = tagit(la.create_definition(name="ab"), "w")
    la.create_definition()
    tagit(lA.create_definition(name="a"), "v").create_port(name="a", pins=1)
    for nm_, kv in (("a", "v"), ("A", "v"), ("ab", "w"), (None, "v"), ("r[0]", "w"), ("r0", "v")):
        p = da.create_port(name=nm_, pins=2 if nm_ == "ab" else 1)
        c = da.create_cable(name=nm_, wires=2 if nm_ == "ab" else 1)
        x = da.create_child(name=nm_, reference=leaf)
        for el in (p, c, x):
            if nm_ is not None:
                tagit(el, kv)
            else:
                el["k"] = kv
        c.wires[0].connect_pin(p.pins[0])
        c.wires[0].connect_pin(x.pins[leaf.ports[0].pins[0]])
        if nm_ == "ab":
            p.lower_index = 4     # bits are named ab[4], ab[5]
            c.lower_index = 4
        if popped and nm_ in ("A", "ab"):
            # a history: one of the two naming keys was popped again (the other must stay findable)
            for el in (p, c, x):
                el.pop("EDIF.identifier" if nm_ == "A" else ".NAME")
    # two different cells with one name (in two libraries) instanced side by side
    ab2 = tagit(lab.create_definition(name="ab"), "w")
    tagit(da.create_child(name="zab1", reference=ab1), "w")
    tagit(da.create_child(name="zab2", reference=ab2), "w")
    # a one-bit port / cable that is an array based at 3: its only bit is named sel[3]
    sp = da.create_port(name="sel", pins=1)
    sc = da.create_cable(name="sel", wires=1)
    for el in (sp, sc):
        el.is_scalar = False
        el.lower_index = 3
        tagit(el, "w")
    sc.wires[0].connect_pin(sp.pins[0])
    gone = []
    if renamed:
        # a history of renames (query -> edit -> query): r0 becomes q9; a goes away and comes back; identifiers too
        for grp in (da.ports, da.cables, da.children):
            for el in list(grp):
                if el.name in ("r0", "A"):
                    gone.append(el["EDIF.identifier"])
                    el["EDIF.identifier"] = el["EDIF.identifier"] + "x"
                if el.name == "r0":
                    el.name = "q9"
                elif el.name == "a":
                    el.name = "tmp_a"
                    el.name = "a"
    if refused:
        # a history of refused adds: in every scope an element whose name is taken while its identifier ("zz") is free,
        # and one whose identifier is taken (in another letter case) while its name is free; none of them may be found
        # afterwards, under any key
        for make, taken_id in ((lambda **kw: n.create_library(**kw), la["EDIF.identifier"]),
                               (lambda **kw: la.create_definition(**kw), da["EDIF.identifier"]),
                               (lambda **kw: da.create_port(**kw), da.ports[0]["EDIF.identifier"]),
                               (lambda **kw: da.create_cable(**kw), da.cables[0]["EDIF.identifier"]),
                               (lambda **kw: da.create_child(reference=leaf, **kw), da.children[0]["EDIF.identifier"])):
            for props in ({".NAME": "a", "EDIF.identifier": "zz", "k": "v"}, {".NAME": "zz_free", "EDIF.identifier": taken_id.swapcase(), "k": "v"}):
                try:
                    el = make(properties=props)
                    # accepted (the default policy does not index identifiers): take it out again
                    {"Library": lambda: n.remove_library(el), "Definition": lambda: la.remove_definition(el), "Port": lambda: da.remove_port(el),
                     "Cable": lambda: da.remove_cable(el), "Instance": lambda: da.remove_child(el)}[type(el).__name__]()
                except ValueError:
                    pass
                gone.append(props["EDIF.identifier"])
        gone += ["zz_free"]
    mid = tagit(lab.create_definition(name="a"), "v")
    mid.create_child(name="a", reference=da)
    mid.create_child(name="ab", reference=da)
    n.top_instance = mid
    n.top_instance.name = "top"
    return n, {"la": la, "lA": lA, "da": da, "leaf": leaf, "mid": mid, "gone": gone}


def roots(n, h):
    s = core.sdn()
    da = h["da"]
    xa = next(x for x in da.children if x.name == "a")
    return {
        "netlist": n, "library": h["la"], "definition": da, "instance": xa, "port": da.ports[0], "cable": da.cables[0],
        "innerpin": da.ports[0].pins[0], "outerpin": next(iter(xa.pins)), "wire": da.cables[0].wires[0],
        "href": s.HRef.from_parent_and_item(None, n.top_instance), "libraries": [h["la"], h["lA"]],
        "topinstance": n.top_instance,
    }


FUNCS = {
    # name: (has patterns/key, selections, has recursive, hierarchical)
    "get_netlists": (True, (None,), False, False),
    "get_libraries": (True, ("INSIDE", "OUTSIDE"), True, False),
    "get_definitions": (True, ("INSIDE", "OUTSIDE"), True, False),
    "get_instances": (True, ("INSIDE", "OUTSIDE"), True, False),
    "get_ports": (True, (None,), False, False),
    "get_cables": (True, ("INSIDE", "OUTSIDE", "BOTH", "ALL"), True, False),
    "get_pins": (False, ("INSIDE", "OUTSIDE", "BOTH", "ALL"), False, False),
    "get_wires": (False, ("INSIDE", "OUTSIDE", "BOTH", "ALL"), True, False),
    "get_hinstances": (True, (None,), True, True),
    "get_hports": (True, (None,), True, True),
    "get_hpins": (True, (None,), True, True),
    "get_hcables": (True, ("INSIDE", "OUTSIDE", "BOTH", "ALL"), True, True),
    "get_hwires": (True, ("INSIDE", "OUTSIDE", "BOTH", "ALL"), True, True),
}


def ident(x):
    s = core.sdn()
    if isinstance(x, s.HRef):
        out = []
        while x is not None:
            out.append(id(x.item))
            x = x.parent
        return tuple(out)
    return id(x)


def value(x, key, hier):
    if hier:
        return x.name
    try:
        return x[key] if key in x else ""
    except TypeError:
        return ""


def absolute(p, is_case, is_re):
    return is_case and not is_re and not any(c in p for c in "*?")


def match(v, p, is_case, is_re, key, policy, hier):
    if v is None:
        v = ""
    if is_re:
        try:
            return re.fullmatch(p, v, 0 if is_case else re.IGNORECASE) is not None
        except re.error:
            return False
    if absolute(p, is_case, is_re):
        if not hier and key == "EDIF.identifier" and policy == "EDIF":
            return v.lower() == p.lower()  # documented: identifiers compare case-insensitively
        return v == p
    if is_case:
        return fnmatch.fnmatchcase(v, p)
    return fnmatch.fnmatchcase(v.lower(), p.lower())


def flt(x):
    s = core.sdn()
    if isinstance(x, s.HRef):
        return len(x.name) % 2 == 0
    try:
        return x.get("k") != "w"
    except AttributeError:
        return True


def worker(case):
    policy, fname, rname, lookup_on, order = case
    core.reset_world()
    core.set_order(order)
    s = core.sdn()
    probs = []
    n, h = build(policy)
    policy = policy.split("+")[0]
    root = roots(n, h)[rname]
    fn = getattr(s, fname)
    has_pat, selections, has_rec, hier = FUNCS[fname]
    if lookup_on == "again":
        # the plugin switched off and on again (as around a bulk operation), nothing edited in between
        s.namespace_manager.deregister_all_listeners()
        s.namespace_manager.register_all_listeners()
        lookup_on = True
    root_before = list(root) if isinstance(root, list) else None
    if not lookup_on:
        from spydrnet.global_state.global_service import deregister_lookup
        deregister_lookup(".NAME")
        deregister_lookup("EDIF.identifier")
    nq = 0
    nontrivial = 0
    tagbase = "%s(%s)" % (fname, rname)
    # the unfiltered result itself, where the structure says what it is (the patterns are judged against it below)
    da_ = h["da"]
    plain = {("get_definitions", "definition"): lambda: [x.reference for x in da_.children],
             ("get_instances", "definition"): lambda: list(da_.children),
             ("get_ports", "definition"): lambda: list(da_.ports),
             ("get_cables", "definition"): lambda: list(da_.cables),
             ("get_definitions", "library"): lambda: list(h["la"].definitions),
             ("get_definitions", "netlist"): lambda: [d for l in n.libraries for d in l.definitions],
             ("get_libraries", "netlist"): lambda: list(n.libraries),
             ("get_definitions", "libraries"): lambda: list(h["la"].definitions) + list(h["lA"].definitions)}.get((fname, rname))
    if plain is not None:
        nq += 1
        got0 = list(fn(root))
        named = lambda xs: sorted(set(id(x) for x in xs if ".NAME" in x))   # (whether a nameless element is listed is not fixed)
        if named(got0) != named(plain()) or len(got0) != len(set(map(id, got0))):
            probs.append(("unfiltered-result-wrong:%s" % tagbase, "returned %d element(s), %d distinct; the structure holds %d" % (len(got0), len(set(map(id, got0))), len(set(map(id, plain()))))))
    for sel in selections:
        for rec in ((False, True) if has_rec else (None,)):
            kw = {}
            if sel is not None:
                kw["selection"] = sel
            if rec is not None:
                kw["recursive"] = rec
            try:
                U = list(fn(root, **kw))
            except (TypeError, ValueError, AssertionError, NotImplementedError) as ex:
                continue  # this root / option combination is not supported by the function
            except Exception as ex:
                probs.append(("query-raised:%s:%s" % (tagbase, type(ex).__name__), "%r with %r" % (ex, kw)))
                continue
            nq += 1
            uid = [ident(x) for x in U]
            if len(uid) != len(set(uid)):
                probs.append(("duplicate-in-unfiltered-result:%s" % tagbase, "%r: %d results, %d distinct" % (kw, len(uid), len(set(uid)))))
            try:
                F = [ident(x) for x in fn(root, filter=flt, **kw)]
                nq += 1
                if sorted(map(repr, F)) != sorted(repr(ident(x)) for x in U if flt(x)):
                    probs.append(("filter-not-applied-on-top:%s" % tagbase, repr(kw)))
            except Exception as ex:
                probs.append(("query-raised:%s:%s" % (tagbase, type(ex).__name__), "filter with %r" % kw))
            if not has_pat:
                continue
            U0 = U
            for key in (".NAME", "EDIF.identifier", "k"):
                U = U0
                if hier and key != ".NAME":
                    continue
                if not hier:
                    try:  # the unfiltered result under this key (elements lacking the key may be left out)
                        U = list(fn(root, key=key, **kw))
                    except Exception as ex:
                        probs.append(("query-raised:%s:%s" % (tagbase, type(ex).__name__), "key=%r %r" % (key, kw)))
                        continue
                vals = sorted(set(value(x, key, hier) for x in U))
                pats = set()
                for v in vals[:9]:
                    if v:
                        pats |= {v, v.swapcase(), v[:1] + "*", v[:-1] + "?", "?" * len(v)}
                pats |= set([v for v in vals if "[" in v][:8])   # names carrying a bus index
                pats |= {"zz", "*", "a*", "A*", "r0", "q9", "tmp_a"} | set(h.get("gone", ()))
                single = sorted(pats)
                multi = [("a", "a*"), ("a*", "a"), ("a", "A"), ("a", "a"), ("zz", "a"), ("r[0]", "a*"), ("a*", "r[0]"), ("r[0]", "r0")]
                for v in [x for x in vals if x][-2:]:
                    # an exact name before / after a wildcard that covers it, and the same exact name twice
                    multi += [(v, v[:1] + "*"), (v[:1] + "*", v), (v, v), ("*", v)]
                # (class escapes in upper case: folding the *pattern* to lower case would turn them into their opposites)
                # a dozen patterns at once (exact values, as they are and in the other letter case, padded with strangers)
                nonempty = [x for x in vals if x]
                multi += [tuple((nonempty + ["zz%d" % i for i in range(12)])[:12]),
                          tuple(([x.swapcase() for x in nonempty] + ["zz%d" % i for i in range(12)])[:12])]
                regs = sorted(set([re.escape(v) for v in vals[:4] if v] + ["a.*", "[aA]b?", ".*", "(", r"\D+", r"a\D?", r"\S\S", r"[A-Z]\W?\w*", r"\w+\W\d\W"]))
                for is_case in (True, False):
                    for is_re in (False, True):
                        plist = [(p,) for p in (regs if is_re else single)] + ([] if is_re else multi)
                        # no pattern at all (an empty list / tuple) selects nothing; the empty string selects no element with a non-empty value
                        plist += [(), ((),)] + ([] if hier or is_re else [("",)])
                        for pt in plist:
                            kk = dict(kw, is_case=is_case, is_re=is_re)
                            if not hier:
                                kk["key"] = key
                            arg = pt[0] if len(pt) == 1 else list(pt)
                            if pt == ((),):
                                pt, arg = (), ()
                            if pt == ("",):
                                try:
                                    G0 = list(fn(root, "", **kk))
                                except Exception as ex:
                                    probs.append(("query-raised:%s:%s" % (tagbase, type(ex).__name__), "'' %r" % (kk,)))
                                    continue
                                nq += 1
                                # (whether an element *lacking* the key counts as having the value "" is not fixed)
                                if any(value(x, key, hier) != "" for x in G0):
                                    probs.append(("pattern-result-extra:%s:%s:empty-string:%s:lookup=%s" % (fname, key, policy, "on" if lookup_on else "off"),
                                                  "%s(%s, '', %r) returned %d element(s)" % (fname, rname, kk, len(G0))))
                                continue
                            try:
                                G = [ident(x) for x in fn(root, arg, **kk)]
                            except Exception as ex:
                                probs.append(("query-raised:%s:%s" % (tagbase, type(ex).__name__), "%r %r" % (arg, kk)))
                                continue
                            nq += 1
                            want = [ident(x) for x in U if any(match(value(x, key, hier), p, is_case, is_re, key, policy, hier) for p in pt)]
                            # exact EDIF identifiers under the EDIF policy: the docs promise case-insensitive answers
                            # from the fast lookup only, so case variants may (not must) be returned
                            strict = set(ident(x) for x in U if any(match(value(x, key, hier), p, is_case, is_re, key, "DEFAULT", hier) for p in pt))
                            kindp = "regex" if is_re else ("exact" if all(absolute(p, is_case, is_re) for p in pt) else ("wildcard" if len(pt) == 1 else "mixed"))
                            feat = "%s:%s:%s%s" % (key, kindp, "case" if is_case else "nocase", ":multi" if len(pt) > 1 else "")
                            if len(G) != len(set(G)):
                                probs.append(("element-returned-twice:%s:%s" % (fname, feat), "%s %r %r" % (rname, arg, kk)))
                            if len(pt) > 1 and not is_re:
                                # several patterns give the union of what each of them gives alone
                                try:
                                    alone = set()
                                    for p1 in dict.fromkeys(pt):
                                        nq += 1
                                        alone |= set(ident(x) for x in fn(root, p1, **kk))
                                    if alone != set(G):
                                        probs.append(("pattern-list-is-not-the-union:%s:%s:%s" % (fname, feat, policy),
                                                      "%s(%s, %r, %r) returned %d element(s), the patterns one by one %d" % (fname, rname, arg, kk, len(set(G)), len(alone))))
                                except Exception as ex:
                                    probs.append(("query-raised:%s:%s" % (tagbase, type(ex).__name__), "single pattern of %r %r" % (arg, kk)))
                            if strict <= set(G) <= set(want):
                                if want:
                                    nontrivial += 1
                            elif set(G) != set(want):
                                nontrivial += 1
                                k2 = "missing" if set(want) - set(G) else "extra"
                                probs.append(("pattern-result-%s:%s:%s:%s:lookup=%s" % (k2, fname, feat, policy, "on" if lookup_on else "off"),
                                              "%s(%s, %r, %r): expected %d got %d" % (fname, rname, arg, kk, len(set(want)), len(set(G)))))
                            elif want:
                                nontrivial += 1
    if case[3] == "again":
        probs = [(c, d + " (plugin switched off and on again before the queries)") for c, d in probs]
    if root_before is not None and (len(root) != len(root_before) or any(a is not b for a, b in zip(root, root_before))):
        probs.append(("query-changed-the-callers-list:%s" % fname, "the list of roots handed in had %d elements, has %d after the queries" % (len(root_before), len(root))))
    return {"key": core.digest(case), "nontrivial": nontrivial > 0, "outcome": "ok", "problems": list(dict.fromkeys(probs)), "transitions": nq}


engine_b.WORKERS[ID] = worker
ROOTS = ("netlist", "library", "definition", "instance", "port", "cable", "innerpin", "outerpin", "wire", "href", "libraries", "topinstance")


def cases(tier):
    out = []
    for policy in ("DEFAULT", "EDIF", "DEFAULT+pop", "EDIF+pop", "DEFAULT+ren", "EDIF+ren", "DEFAULT+refused", "EDIF+refused"):
        for fname in FUNCS:
            for rname in ROOTS:
                for lookup_on in (True, False, "again"):
                    if lookup_on == "again" and "+" in policy and tier != "thorough":
                        continue
                    for order in (core.ORDER_VARIANTS if tier == "thorough" else ("asc",)):
                        out.append((policy, fname, rname, lookup_on, order))
    return out


def run(tier, seed):
    cov = core.Coverage(
        "Engine B over the option product: for every (policy, query function, root kind, fast lookup on/off) every "
        "selection x recursive x key x pattern (exact, case-swapped, prefix*, ?, escaped regex, pairs in both orders, "
        "repeated) x is_case x is_re is evaluated and compared with the unfiltered result restricted by an independent "
        "match function; filter callback checked on top; no element twice; transitions = query evaluations")
    found = {}
    deadline = time.time() + (900 if tier == "quick" else 6000)
    cs = cases(tier)
    k = seed % 7
    engine_b.run_cases(ID, cs[k:] + cs[:k], cov, found, deadline, level="queries/" + tier)
    engine_b.finish(cov)
    return cov, found


def replay(case):
    return engine_b.replay_case(case)
