"""C20 - the netlist comparer accepts equal netlists and rejects structural differences (Engine B)."""
import os
import time

from vlib import core, engine_b, fdesigns, edif_writer, verilog_writer as vw, eblif_writer as ew
from checks import c05, c06, c18

ID = "C20"
LEVEL = "model_checking"
ASSUMPTIONS = [
    "a faithful copy is obtained by parsing the same text twice (independent objects), by clone(), and by "
    "write-then-read in the netlist's own format; every single mutation of the documented comparison set among "
    "named elements is then applied to the copy, one at a time",
    "base netlists: reader-built from the independent writers' texts (EDIF E1/E2/E3, Verilog base, EBLIF B1)",
]
SOURCES = ("edif:E1", "edif:E2", "edif:E3", "edif:E7", "edif:E1+api", "edif:E2+uniquify", "edif:E5+flatten", "verilog", "eblif:B1", "api:wide")


def load(src):
    kind, _, which = src.partition(":")
    if kind == "api":
        # twelve-bit buses next to one-bit ports whose names end in a digit (addr[10] / addr1): a comparison by a
        # label glued together from name and index cannot tell them apart
        s = core.sdn()
        n = s.Netlist(name="wide")
        lib = n.create_library(name="work")
        mem = lib.create_definition(name="mem")
        for nm, wd in (("addr", 12), ("addr1", 1), ("d", 12), ("d1", 1)):
            mem.create_port(name=nm, pins=wd, direction=s.IN)
        top = lib.create_definition(name="top")
        tp = top.create_port(name="addr", pins=12, direction=s.IN)
        top.create_port(name="addr1", pins=1, direction=s.IN)
        bus = top.create_cable(name="addr", wires=12)
        dbus = top.create_cable(name="d", wires=12)
        u = top.create_child(name="u", reference=mem)
        for k in range(12):
            bus.wires[k].connect_pin(tp.pins[k])
            bus.wires[k].connect_pin(u.pins[mem.ports[0].pins[k]])
            dbus.wires[k].connect_pin(u.pins[mem.ports[2].pins[k]])
        n.top_instance = top
        n.top_instance.name = "top_i"
        return n, ".edf"
    if kind == "edif":
        n = c05.parse_text(edif_writer.render(fdesigns.BASES[which.split("+")[0]]()))
        if which.endswith("+uniquify") or which.endswith("+flatten"):
            # the comparison follows a transformation (a tool compares what it wrote with what it holds)
            from spydrnet.uniquify import uniquify
            from spydrnet.flatten import flatten
            uniquify(n)
            if which.endswith("+flatten"):
                flatten(n)
        if which.endswith("+api"):
            # a netlist read from EDIF (EDIF policy) and then extended through the API, whose new elements are
            # created under the policy the reader restored
            s = core.sdn()
            top = n.top_instance.reference
            leaf = next(d for l in n.libraries for d in l.definitions if not d.children and d.ports)
            lib = s.Library(name="api_lib")
            lib.create_definition(name="api_cell").create_port(name="api_port", pins=1)
            n.add_library(lib)
            top.create_cable(name="api_net", wires=1)
            x = s.Instance(name="api_inst")
            x.reference = leaf
            top.add_child(x)
            top.cables[-1].wires[0].connect_pin(next(iter(x.pins)))
        return n, ".edf"
    if kind == "verilog":
        vad = c06.base_vad()
        # a never-declared primitive comes back with inout ports (documented): declare it, so that the
        # write-then-read copy is a faithful one
        prim = next(m for m in vad["modules"] if m["name"] == "prim")
        prim.update(declared=True, celldefine=True, ports=[["x", "in", None, None], ["z", "in", 1, 0], ["q", "out", None, None]])
        return c06.parse_text(vw.render(vad)), ".v"
    ead = c18.base(which)
    ead["outputs"] = ["y", "q[0]", "q[1]"]  # every bit of the bus declared (a lone q[1] is C18's subject)
    return c18.parse_text(ew.render(ead)), ".eblif"


def mutations(n):
    """every single structural mutation of netlist n: list of (label, function)."""
    s = core.sdn()
    out = []
    D = s.Port.Direction
    defs = [(l, d) for l in n.libraries for d in l.definitions]
    for l, d in defs:
        for p in d.ports:
            for nd in D:
                if nd is not p.direction:
                    out.append(("port-direction", lambda p=p, nd=nd: setattr(p, "direction", nd)))
            out.append(("port-width+1", lambda p=p: p.create_pin()))
            if len(p.pins) > 1:
                out.append(("port-width-1", lambda p=p: p.remove_pin(p.pins[-1])))
            if len(p.pins) == 1:
                out.append(("port-arrayness", lambda p=p: setattr(p, "is_array", not p.is_array)))
        for c in d.cables:
            out.append(("cable-width+1", lambda c=c: c.create_wire()))
            if len(c.wires) > 1 and not c.wires[-1].pins:
                out.append(("cable-width-1", lambda c=c: c.remove_wire(c.wires[-1])))
            for w in c.wires:
                for pin in list(w.pins):
                    # move this connection to every other free pin of the same kind
                    if isinstance(pin, s.OuterPin):
                        cands = [op for x in d.children for op in x.pins if op.wire is None and op is not pin]
                    else:
                        cands = [ip for p in d.ports for ip in p.pins if ip.wire is None and ip is not pin]
                    for other in cands:
                        if isinstance(pin, s.OuterPin):
                            same_inst = other.instance is pin.instance
                            same_port = same_inst and other.inner_pin.port is pin.inner_pin.port
                            label = "move-connection:" + ("other-bit" if same_port else "other-port" if same_inst else "other-instance")
                        else:
                            label = "move-connection:" + ("top-other-bit" if other.port is pin.port else "top-other-port")

                        def mv(w=w, pin=pin, other=other):
                            idx = list(w.pins).index(pin)
                            w.disconnect_pin(pin)
                            w.connect_pin(other, position=idx)
                        out.append((label, mv))
                    out.append(("drop-connection", lambda w=w, pin=pin: w.disconnect_pin(pin)))
                # a free pin (instance pin or own port pin) gains a connection to this wire
                free = [op for x in d.children for op in x.pins if op.wire is None] + [ip for p in d.ports for ip in p.pins if ip.wire is None]
                for other in free:
                    out.append(("add-connection:" + ("to-floating-wire" if not w.pins else "to-net"), lambda w=w, other=other: w.connect_pin(other)))
        for x in d.children:
            for l2, d2 in defs:
                r = x.reference
                if d2 is not r and len(d2.ports) == len(r.ports) and all(len(a.pins) == len(b.pins) for a, b in zip(d2.ports, r.ports)):
                    out.append(("repoint-instance", lambda x=x, d2=d2: setattr(x, "reference", d2)))
            props = x.get("EDIF.properties")
            for pi in range(len(props or ())):
                def chg(x=x, pi=pi):
                    import copy
                    pr = copy.deepcopy(x["EDIF.properties"])
                    pr[pi]["value"] = "changed" if pr[pi]["value"] != "changed" else "changed2"
                    x["EDIF.properties"] = pr
                out.append(("property-value", chg))

                def retype(x=x, pi=pi):
                    # the same digits / word under another type: (integer 8) <-> (string "8"), (boolean (true)) -> "True"
                    import copy
                    pr = copy.deepcopy(x["EDIF.properties"])
                    v = pr[pi]["value"]
                    pr[pi]["value"] = str(v) if not isinstance(v, str) else (int(v) if v.isdigit() else v + " ")
                    x["EDIF.properties"] = pr
                out.append(("property-retyped", retype))
            if props:
                def cut(x=x, how="last"):
                    import copy
                    pr = copy.deepcopy(x["EDIF.properties"])
                    x["EDIF.properties"] = pr[:-1] if how == "last" else pr[1:] if how == "first" else []
                def more(x=x):
                    import copy
                    x["EDIF.properties"] = copy.deepcopy(x["EDIF.properties"]) + [{"identifier": "ZZ_EXTRA", "value": "1"}]
                out.append(("property-added", more))
                out.append(("property-dropped:last", lambda x=x: cut(x, "last")))
                out.append(("property-dropped:first", lambda x=x: cut(x, "first")))
                out.append(("property-dropped:all", lambda x=x: cut(x, "all")))
            out.append(("drop-instance", lambda d=d, x=x: (x.__setattr__("reference", None), d.remove_child(x))))
        out.append(("add-port", lambda d=d: d.create_port(name="zz_new", pins=1)))
        out.append(("add-cable", lambda d=d: d.create_cable(name="zz_new", wires=1)))
        if d.ports:
            out.append(("drop-port", lambda d=d: d.remove_port(d.ports[-1])))
        if d.cables:
            def dropc(d=d):
                c = d.cables[-1]
                for w in c.wires:
                    w.disconnect_pins_from(list(w.pins))
                d.remove_cable(c)
            out.append(("drop-cable", dropc))
        if d.ports and d is not n.top_instance.reference:
            out.append(("add-instance", lambda d=d: n.top_instance.reference.create_child(name="zz_new", reference=d)))
    if n.top_instance is not None:
        out.append(("drop-top-instance", lambda: setattr(n, "top_instance", None)))
    for l in n.libraries:
        out.append(("add-definition", lambda l=l: l.create_definition(name="zz_new")))
    out.append(("add-library", lambda: n.create_library(name="zz_new")))
    return out


def compare(a, b):
    from spydrnet.compare.compare_netlists import Comparer
    try:
        with core.quiet():
            Comparer(a, b).compare()
        return None
    except BaseException as ex:
        return type(ex).__name__


def worker(case):
    src, what, order = case[0], case[1], case[-1]
    core.reset_world()
    core.set_order(order)
    s = core.sdn()
    probs = []
    a, ext = load(src)
    tag = src.split(":")[0]
    if what == "copies":
        nq = 0
        if "+uniquify" not in src and "+flatten" not in src:   # (generated names differ between two transformations)
            b, _ = load(src)
            r = compare(a, b)
            nq += 1
            if r:
                probs.append(("equal-netlists-rejected:parsed-twice:%s:%s" % (tag, r), "two parses of the same text compare unequal"))
        r = compare(a, a.clone())
        nq += 1
        if r:
            probs.append(("equal-netlists-rejected:clone:%s:%s" % (tag, r), "netlist vs its clone"))
        path = os.path.join(core.scratch_dir(), "c20_%d%s" % (os.getpid(), ext))
        try:
            with core.quiet():
                s.compose(a, path)
                c = s.parse(path)
            r = compare(a, c)
            nq += 1
            if r:
                probs.append(("equal-netlists-rejected:write-then-read:%s:%s" % (tag, r), "netlist vs its own round trip"))
        except Exception as ex:
            probs.append(("round-trip-raised:%s:%s" % (tag, type(ex).__name__), repr(ex)[:200]))
        # compare -> edit -> compare in one process: the pins of a port of the copy are reversed (must be rejected);
        # then the lowest pin of a port of the original is removed and a fresh clone is compared (must be accepted)
        e1 = a.clone()
        if compare(a, e1) is None:
            nq += 1
            port = next((p for l in e1.libraries for d_ in l.definitions for p in d_.ports
                         if len(p.pins) > 1 and len(set(id(ip.wire) for ip in p.pins)) > 1), None)
            if port is not None:
                port.pins = list(reversed(list(port.pins)))
                nq += 1
                if compare(a, e1) is None:
                    probs.append(("difference-accepted:port-pins-reversed-after-a-comparison:%s" % tag, "%s.%s" % (port.definition.name, port.name)))
        port = next((p for l in a.libraries for d_ in l.definitions for p in d_.ports if len(p.pins) > 1), None)
        if port is not None:
            low = port.pins[0]
            if low.wire is not None:
                low.wire.disconnect_pin(low)
            port.remove_pin(low)
            r = compare(a, a.clone())
            nq += 1
            if r:
                probs.append(("equal-netlists-rejected:clone-after-pin-removed:%s:%s" % (tag, r), "after earlier comparisons the lowest pin of %s.%s was removed" % (port.definition.name, port.name)))
        # a faithful copy whose wires list their pins in another order (pins detached and attached again)
        d = a.clone()
        for l in d.libraries:
            for df in l.definitions:
                for cb in df.cables:
                    for wr in cb.wires:
                        wr.pins = list(reversed(list(wr.pins)))
        r = compare(a, d)
        nq += 1
        if r:
            probs.append(("equal-netlists-rejected:pins-reattached:%s:%s" % (tag, r), "netlist vs a clone whose wires list the same pins in reverse order"))
        # a copy edited and un-edited: every one-pin port widened by a pin and narrowed again is what it was
        g = a.clone()
        undone = 0
        for l in g.libraries:
            for df in l.definitions:
                for pt in df.ports:
                    if len(pt.pins) == 1:
                        pt.remove_pin(pt.create_pin())
                        undone += 1
                for cb in df.cables:
                    if len(cb.wires) == 1:
                        cb.remove_wire(cb.create_wire())
                        undone += 1
        r = compare(a, g)
        nq += 1
        if r:
            probs.append(("equal-netlists-rejected:widened-then-narrowed:%s:%s" % (tag, r), "%d one-bit ports / cables of a clone gained a bit and lost it again" % undone))
        # a copy one of whose instance properties is edited in place (the usual way to re-program a LUT)
        f = a.clone()
        target = next((x for l in f.libraries for df in l.definitions for x in df.children if x.get("EDIF.properties")), None)
        if target is not None:
            pr = target["EDIF.properties"][0]
            pr["value"] = "changed" if pr["value"] != "changed" else "changed2"
            nq += 1
            if compare(a, f) is None:
                probs.append(("difference-accepted:property-edited-in-place-on-a-clone:%s" % tag, "instance %s, property %s" % (target.name, pr.get("identifier"))))
            # (undo is not needed: a is not used with f again, but the original must not have been edited through the copy)
            orig = next((x for l in a.libraries for df in l.definitions for x in df.children if x.get("EDIF.properties")), None)
            if orig is not None and orig["EDIF.properties"][0]["value"] == pr["value"]:
                probs.append(("difference-accepted:clone-shares-properties-with-original:%s" % tag, "the edit of the clone's property shows on the original"))
        # ... and after edits that were *refused* on one side (a rename to a sibling's name, in every scope)
        e = a.clone()
        refused = 0
        for side in (a, e):
            for l in side.libraries:
                groups = [list(l.definitions)] + [list(getattr(df, attr)) for df in l.definitions for attr in ("ports", "cables", "children")]
                for grp in groups:
                    named = [x for x in grp if x.name is not None]
                    if len(named) >= 2:
                        try:
                            named[0].name = named[1].name
                        except ValueError:
                            refused += 1
            if side is a:
                for who, x, y in (("original", a, e), ("copy", e, a)):
                    r = compare(x, y)
                    nq += 1
                    if r:
                        probs.append(("equal-netlists-rejected:after-refused-renames:%s:%s" % (tag, r), "refused renames on the %s side (%d refused)" % ("looked-up" if who == "copy" else "walked", refused)))
        return {"key": core.digest(case), "nontrivial": True, "outcome": "copies", "problems": probs, "transitions": nq}
    idx = case[2]
    if "+uniquify" in src or "+flatten" in src:
        b = a.clone()        # (a second transformation would generate other names)
    else:
        b, _ = load(src)
    muts = mutations(b)
    if idx >= len(muts):
        return {"key": core.digest(case), "nontrivial": False, "outcome": "no-such-mutation", "problems": [], "transitions": 0}
    label, fn = muts[idx]
    try:
        fn()
    except Exception as ex:
        return {"key": core.digest(case), "nontrivial": False, "outcome": "mutation-not-applicable:" + type(ex).__name__, "problems": [], "transitions": 0}
    r = compare(a, b)
    if r is None:
        probs.append(("difference-accepted:%s:%s" % (label, tag), "Comparer returned normally for a copy mutated by %s (mutation #%d)" % (label, idx)))
    else:
        # the same comparer asked a second time: still a difference
        from spydrnet.compare.compare_netlists import Comparer
        cmpr = Comparer(a, b)
        verdicts = []
        for _ in range(2):
            try:
                with core.quiet():
                    cmpr.compare()
                verdicts.append(None)
            except BaseException as ex:
                verdicts.append(type(ex).__name__)
        if verdicts[0] is not None and verdicts[1] is None:
            probs.append(("difference-accepted:%s:%s:asked-again" % (label, tag), "the same Comparer refused the copy, then accepted it (mutation #%d)" % idx))
    return {"key": core.digest(case), "nontrivial": True, "outcome": label.split(":")[0], "problems": probs, "transitions": 1}


engine_b.WORKERS[ID] = worker
MAXMUT = 700


def cases(tier):
    out = []
    for src in SOURCES:
        for order in core.ORDER_VARIANTS:
            out.append((src, "copies", order))
        for i in range(MAXMUT):
            out.append((src, "mutate", i, "asc"))
    return out


def run(tier, seed):
    cov = core.Coverage(
        "Engine B: for each base netlist, (a) faithful copies (second parse of the same text, clone, write-then-read "
        "in its own format) must compare equal; (b) every single structural mutation of a copy (each port direction, "
        "width +-1, array-ness, each cable width +-1, each connection moved to every other free pin, dropped "
        "connections, instances re-pointed, property values, one element added or dropped per kind) must make "
        "Comparer.compare() raise; transitions = comparisons")
    found = {}
    deadline = time.time() + (900 if tier == "quick" else 6000)
    cs = cases(tier)
    k = seed % 7
    engine_b.run_cases(ID, cs[k:] + cs[:k], cov, found, deadline, level="compare/" + tier)
    engine_b.finish(cov)
    cov["mutations_applied"] = cov["transitions"]
    return cov, found


def replay(case):
    return engine_b.replay_case(case)
