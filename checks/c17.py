"""C17 - EDIF export gives every object a legal, case-insensitively unique identifier (Engine B)."""
import itertools
import os
import re
import time

from vlib import core, engine_b, canon

ID = "C17"
LEVEL = "model_checking"
ASSUMPTIONS = [
    "alphabet: a A b 1 _ - $ [ ] / \\\\ space & ; sibling sets = all ordered pairs (and triples of short names) in "
    "both processing orders, pre-existing x_sdn_N_ names, length-boundary families; end-to-end through compose+parse "
    "for every namespace scope on a reduced pair set",
    "legal identifier: [A-Za-z][A-Za-z0-9_]{0,254} or &[A-Za-z0-9_]{1,255} (docs/EDIF rule, as enforced by the reader)",
]
SIGMA = ["a", "A", "b", "1", "_", "-", "$", "[", "]", "/", "\\", " ", "&"]
LEGAL = re.compile(r"^(?:[A-Za-z][A-Za-z0-9_]{0,254}|&[A-Za-z0-9_]{1,255})$")


def klass(name):
    return "".join(sorted(set("L" if c.islower() else "U" if c.isupper() else "D" if c.isdigit() else c for c in name)))[:6]


def assign(names):
    """The composer's own renaming pass over a list of sibling instances (real code)."""
    s = core.sdn()
    from spydrnet.composers.edif.composer import ComposeEdif
    from spydrnet.composers.edif.edifify_names import EdififyNames

    comp = ComposeEdif()
    helper = EdififyNames()
    objs = [s.Instance(name=n) for n in names]
    for o in objs:
        comp._add_rename_property(o, objs, helper)
    return [(o.name, o["EDIF.identifier"], bool(o.get("EDIF.rename", False))) for o in objs]


def judge(names, res, probs, tag):
    ids = [r[1] for r in res]
    for (nm, ident, ren) in res:
        if not LEGAL.match(ident):
            probs.append(("illegal-identifier:%s" % tag, "name %r got identifier %r" % (nm[:40], ident[:60])))
        if ident != nm and not ren:
            probs.append(("rename-not-recorded:%s" % tag, "%r -> %r" % (nm[:40], ident[:60])))
    low = [i.lower() for i in ids]
    if len(set(low)) != len(low):
        probs.append(("identifiers-equal-ignoring-case:%s" % tag, "names %r got identifiers %r" % ([n[:30] for n in names], [i[:40] for i in ids])))


def worker(case):
    kind = case[0]
    core.reset_world()
    probs = []
    n = 0
    if kind == "block":
        # all sibling sets whose first name is fixed: pairs (both orders come from the full product) and triples
        _, first, pool, triples = case
        for second in pool:
            if second == first:
                continue
            res = assign([first, second])
            judge([first, second], res, probs, "pair")
            n += 1
            if triples:
                for third in triples:
                    if third in (first, second):
                        continue
                    res = assign([first, second, third])
                    judge([first, second, third], res, probs, "triple")
                    n += 1
        key = core.digest(("block", first, len(pool)))
    elif kind == "length":
        _, la, lb, ca, cb, shared = case
        a = (ca * la)[:la]
        b = (a[:shared] + cb * lb)[:lb] if shared else (cb * lb)[:lb]
        if a == b:
            b = b[:-1] + ("z" if b[-1] != "z" else "y")
        for names in ([a, b], [b, a], [a, b, a.upper()], [a + "_sdn_1_", a, b]):
            if len(set(names)) != len(names):
                continue
            res = assign(names)
            judge(names, res, probs, "length-boundary")
            n += 1
        key = core.digest(case)
    elif kind == "many-long":
        _, count, plen, ch = case
        names = [(ch * plen) + "tail%02d" % k for k in range(count)]
        res = assign(names)
        judge(names, res, probs, "many-long-siblings")
        n += 1
        key = core.digest(case)
    elif kind == "sdn":
        _, base, taken = case
        names = ["%s_sdn_%d_" % (base, k) for k in taken] + [base, base.upper(), base]
        names = list(dict.fromkeys(names))
        for perm in itertools.permutations(names):
            res = assign(list(perm))
            judge(list(perm), res, probs, "pre-existing-sdn")
            n += 1
        key = core.digest(case)
    else:  # end to end
        _, scope, na, nb, order = case
        core.set_order(order)
        probs += end_to_end(scope, na, nb)
        n = 1
        key = core.digest(case)
    return {"key": key, "nontrivial": True, "outcome": kind, "problems": list(dict.fromkeys(probs)), "transitions": n}


def end_to_end(scope, na, nb):
    """two siblings named na / nb in the given scope, written and read back."""
    s = core.sdn()
    probs = []
    tag = "e2e:%s" % scope
    n = s.Netlist(name="n")
    prim = n.create_library(name="prims")
    leaf = prim.create_definition(name="leaf")
    leaf.create_port(name="i", direction=s.IN, pins=1)
    work = n.create_library(name="work")
    top = work.create_definition(name="top")
    if scope == "library":
        n.create_library(name=na).create_definition(name="d1")
        n.create_library(name=nb).create_definition(name="d2")
    elif scope == "cell":
        work.create_definition(name=na)
        work.create_definition(name=nb)
    elif scope == "instance-readded-under-edif":
        # an EDIF-policy netlist (what the EDIF reader returns): an instance carrying an identifier is removed
        # and a new one with the same name is created - the writer has to give it an identifier again
        n[".NS"] = "EDIF"
        old = top.create_child(name=na, reference=leaf)
        old["EDIF.identifier"] = "".join(ch if ch.isalnum() else "_" for ch in na)   # as the reader sets it
        top.remove_child(old)
        top.create_child(name=na, reference=leaf)
        top.create_child(name=nb, reference=leaf)
    elif scope == "inserted-in-front-under-edif":
        # EDIF-policy netlist: a sibling already identified (as after a read) and a hand-built one whose name sanitises
        # to that very identifier, inserted in FRONT of it
        n[".NS"] = "EDIF"
        old = top.create_child(name=na, reference=leaf)
        old["EDIF.identifier"] = "".join(ch if ch.isalnum() else "_" for ch in na)
        x = s.Instance(name=nb)
        x.reference = leaf
        top.add_child(x, position=0)
        oc = top.create_cable(name=na, wires=1)
        oc["EDIF.identifier"] = "".join(ch if ch.isalnum() else "_" for ch in na)
        top.add_cable(s.Cable(name=nb), position=0)
        top.cables[0].create_wire()
    elif scope in ("copy-added-after-export", "case-variant-copy-added-after-export"):
        # exported once (identifiers are now recorded), then a copy of each element is renamed and added next to
        # the original; the copy arrives carrying the original's identifier
        x0 = top.create_child(name=na, reference=leaf)
        c0 = top.create_cable(name=na, wires=1)
        p0 = top.create_port(name=na, direction=s.IN, pins=1)
        d0 = work.create_definition(name=na)
        n.top_instance = top
        n.top_instance.name = "t"
        with core.quiet():
            s.compose(n, os.path.join(core.scratch_dir(), "c17_first_%d.edf" % os.getpid()))
        for orig, add in ((x0, top.add_child), (c0, top.add_cable), (p0, top.add_port), (d0, work.add_definition)):
            cp = orig.clone()
            cp.name = nb
            if scope.startswith("case-variant") and "EDIF.identifier" in cp:
                # ... spelled in the other letter case (two designs exported separately, parts of one moved into the other)
                cp["EDIF.identifier"] = cp["EDIF.identifier"].swapcase()
            add(cp)
    elif scope == "refused-adds-under-edif":
        # EDIF-policy netlist: before the export, adds are refused because of their *name* while the identifiers they
        # carry are free - exactly the identifiers the writer is about to give to a sibling
        n[".NS"] = "EDIF"
        first = top.create_child(name=na, reference=leaf)
        first["EDIF.identifier"] = "".join(ch if ch.isalnum() else "_" for ch in na)
        top.create_child(name=nb, reference=leaf)
        c0 = top.create_cable(name=na, wires=1)
        c0["EDIF.identifier"] = "".join(ch if ch.isalnum() else "_" for ch in na)
        top.create_cable(name=nb, wires=1)
        base_id = "".join(ch if ch.isalnum() else "_" for ch in nb)
        for ident in (base_id, base_id + "_sdn_1_", base_id + "_sdn_2_"):
            for make in (lambda **kw: top.create_child(reference=leaf, **kw), lambda **kw: top.create_cable(**kw)):
                try:
                    make(properties={".NAME": na, "EDIF.identifier": ident})
                    return [("setup-not-refused:" + tag, "an element named like a sibling was accepted")]
                except ValueError:
                    pass
    elif scope == "cell-first-library":
        # the colliding cells live in a library that is not the last one written
        prim.create_definition(name=na)
        prim.create_definition(name=nb)
        top.create_child(name="u", reference=leaf)
    elif scope == "port":
        top.create_port(name=na, direction=s.IN, pins=1)
        top.create_port(name=nb, direction=s.OUT, pins=1)
    elif scope == "net":
        top.create_cable(name=na, wires=1)
        top.create_cable(name=nb, wires=1)
    elif scope == "instance":
        top.create_child(name=na, reference=leaf)
        top.create_child(name=nb, reference=leaf)
    elif scope == "port-cross-scope":
        # each spelling alone in an earlier cell, both together in a later one
        work.create_definition(name="only_a").create_port(name=na, direction=s.IN, pins=1)
        work.create_definition(name="only_b").create_port(name=nb, direction=s.IN, pins=1)
        both = work.create_definition(name="both")
        both.create_port(name=na, direction=s.IN, pins=1)
        both.create_port(name=nb, direction=s.OUT, pins=1)
    elif scope == "net-cross-scope":
        work.create_definition(name="only_a").create_cable(name=na, wires=1)
        work.create_definition(name="only_b").create_cable(name=nb, wires=1)
        both = work.create_definition(name="both")
        both.create_cable(name=na, wires=1)
        both.create_cable(name=nb, wires=1)
    if n.top_instance is None:
        n.top_instance = top
    n.top_instance.name = na if scope == "top-instance" else "t"
    if scope == "netlist":
        n.name = na
    before = canon.canon_netlist(n)
    path = os.path.join(core.scratch_dir(), "c17_%d.edf" % os.getpid())
    try:
        with core.quiet():
            s.compose(n, path)
    except Exception as ex:
        return [("compose-raised:%s:%s" % (type(ex).__name__, tag), repr(ex)[:200])]
    # identifiers actually stored
    for lib in n.libraries:
        groups = [list(n.libraries)] if lib is n.libraries[0] else []
        groups.append(list(lib.definitions))
        for d in lib.definitions:
            groups += [list(d.ports), list(d.cables), list(d.children)]
        for g in groups:
            ids = [x["EDIF.identifier"] for x in g if "EDIF.identifier" in x]
            for i in ids:
                if not LEGAL.match(i):
                    probs.append(("illegal-identifier:" + tag, repr(i[:60])))
            if len(set(i.lower() for i in ids)) != len(ids):
                probs.append(("identifiers-equal-ignoring-case:" + tag, repr(ids)[:200]))
    try:
        with core.quiet():
            m = s.parse(path)
    except Exception as ex:
        probs.append(("written-file-unreadable:%s:%s" % (type(ex).__name__, tag), repr(ex)[:200]))
        return probs
    after = canon.canon_netlist(m)
    for c in (before, after):
        c.pop("lib_order", None)
        for L in c["libs"].values():
            L.pop("order", None)
            for D in L["defs"].values():
                D["ports"] = [r[:4] for r in D["ports"]]
    d = canon.diff(before, after)
    if d:
        probs.append(("names-not-preserved:%s:%s" % (d[0], tag), d[1][:300]))
    if scope == "top-instance" and m.top_instance.name != na:
        probs.append(("names-not-preserved:top-instance:" + tag, "%r != %r" % (m.top_instance.name, na)))
    return probs


engine_b.WORKERS[ID] = worker


def names_upto(k):
    out = []
    for n in range(1, k + 1):
        out += ["".join(t) for t in itertools.product(SIGMA, repeat=n)]
    return out


def cases(tier):
    out = []
    pool = names_upto(2 if tier == "quick" else 3)
    singles = names_upto(1)
    for first in pool:
        out.append(("block", first, pool, singles if len(first) == 1 else None))
    for la in (1, 254, 255, 256, 257, 300):
        for lb in (254, 255, 256, 257, 300):
            for ca in ("a", "A", "1", "-", "&"):
                for cb in ("a", "b", "_"):
                    for shared in (0, 255, 256):
                        out.append(("length", la, lb, ca, cb, shared))
    for count in (3, 11, 12):
        for plen in (255, 256, 300):
            for ch in ("a", "A", "-"):
                out.append(("many-long", count, plen, ch))
    for base in ("x", "X", "a-b", "1"):
        for taken in ((1,), (1, 2), (2,), (1, 3)):
            out.append(("sdn", base, taken))
    e2e_names = ["a", "A", "a-b", "a_b", "1a", "a b", "a[0]", "x/y", "&a", "$", "a" * 256, "A" * 256]
    scopes = ("library", "cell", "port", "net", "instance")
    for scope in scopes:
        for na, nb in itertools.permutations(e2e_names, 2):
            if scope == "net" and (na.endswith("]") or nb.endswith("]")):
                continue  # name[i] on a net is, by the reader's documented convention (C05), bit i of bus 'name'
            if tier == "thorough" or (e2e_names.index(na) + e2e_names.index(nb)) % 3 == 0 or na.lower() == nb.lower():
                out.append(("e2e", scope, na, nb, "asc"))
    for na, nb in (("D", "d"), ("d", "D"), ("aB", "Ab"), ("x1", "X1"), ("a-b", "A-b")):
        out.append(("e2e", "port-cross-scope", na, nb, "asc"))
        out.append(("e2e", "net-cross-scope", na, nb, "asc"))
    for na, nb in (("D", "d"), ("d", "D"), ("aB", "Ab"), ("a-b", "a_b"), ("a_b", "a-b"), ("x/y", "x_y"), ("A" * 256, "a" * 256)):
        out.append(("e2e", "cell-first-library", na, nb, "asc"))
    for na, nb in (("U_Buf1", "Clk"), ("Net_A", "net_a2"), ("a-b", "A-B2")):
        out.append(("e2e", "instance-readded-under-edif", na, nb, "asc"))
    for na, nb in (("a-b", "a+b"), ("q[0]x", "q(0)x"), ("x.y", "X/Y")):
        out.append(("e2e", "inserted-in-front-under-edif", na, nb, "asc"))
    for na, nb in (("x_y", "x/y"), ("a-b", "a+b"), ("k", "K-"), ("plain", "other")):
        out.append(("e2e", "refused-adds-under-edif", na, nb, "asc"))
    for na, nb in (("Core_A", "Core_B"), ("core_a", "core_b"), ("U1", "u1x"), ("a-B", "a-C"), ("A" * 256, "b")):
        out.append(("e2e", "copy-added-after-export", na, nb, "asc"))
        out.append(("e2e", "case-variant-copy-added-after-export", na, nb, "asc"))
    # names that begin or end with a blank (an escaped Verilog identifier ends with one)
    for scope in scopes:
        for na, nb in (("u ", "u"), ("u", " u"), ("\\b/s ", "b"), (" ", "a"), ("a  b ", "a b")):
            out.append(("e2e", scope, na, nb, "asc"))
    for nm in e2e_names:
        out.append(("e2e", "top-instance", nm, "b", "asc"))
        out.append(("e2e", "netlist", nm, "b", "asc"))
    return out


def run(tier, seed):
    cov = core.Coverage(
        "Engine B: the composer's renaming pass (real code) is run on every ordered pair of sibling names of length "
        "<= 2 (quick) / <= 3 (thorough) over a 13-character adversarial alphabet, on triples of 1-character names, on "
        "pre-existing x_sdn_N_ names in every processing order and on length-boundary families; every scope is "
        "additionally exercised end to end (compose + parse); transitions = sibling sets evaluated")
    found = {}
    deadline = time.time() + (900 if tier == "quick" else 6000)
    cs = cases(tier)
    k = seed % 7
    engine_b.run_cases(ID, cs[k:] + cs[:k], cov, found, deadline, level="names/" + tier)
    engine_b.finish(cov)
    return cov, found


def replay(case):
    return engine_b.replay_case(case)
