"""C04 - structural Verilog write-then-read returns the same netlist (Engine B)."""
import os
import time

from vlib import core, engine_b, wf, verilog_writer as vw, vcanon
from checks import c06

ID = "C04"
LEVEL = "model_checking"
ASSUMPTIONS = [
    "inputs: every netlist obtained by parsing the C06 texts (base design in every module order/style, the whole "
    "connection-expression product) and the bundled .v examples under a byte cap, then one of identity / uniquify / "
    "uniquify+flatten / clone; composer options write_blackbox x defparam",
    "documented normalisation: ports of inferred black boxes have UNDEFINED direction and are written as inout; "
    "assignment instances are compared as multisets of joined bit pairs (their names are renumbered)",
    "names are compared modulo escaping: IEEE 1364 says the leading backslash and the terminating white space are "
    "not part of an escaped identifier",
]
TRANSFORMS = ("identity", "uniquify", "flatten", "clone")


def bundled_files(tier):
    d = os.path.join(core.REPO, "example_netlists", "verilog_netlists")
    cap = 7000 if tier == "quick" else 60000
    fs = [(os.path.getsize(os.path.join(d, f)), f) for f in os.listdir(d) if f.endswith(".v.zip")]
    return [f for sz, f in sorted(fs) if 0 < sz <= cap]


def normalise(c):
    """inferred black-box ports: UNDEFINED is written as inout (docs/verilog_support.rst)."""
    for name, ports in c["primitives"].items():
        c["primitives"][name] = [(p, "inout" if d == "undef" else d, w) for p, d, w in ports]
    for m in c["modules"].values():
        m["ports"] = [(p, "inout" if d == "undef" else d, w, lo) for p, d, w, lo in m["ports"]]
    return c


def reachable_only(c):
    """restrict to the modules reachable from the top (flatten leaves gutted, unreferenced definitions with
    ports but no nets behind - not expressible in Verilog, where every port implies a net)."""
    seen, todo = set(), [c["top"]]
    while todo:
        m = todo.pop()
        if m in seen or m not in c["modules"]:
            continue
        seen.add(m)
        todo += [v[0] for v in c["modules"][m]["insts"].values()]
    c["modules"] = {k: v for k, v in c["modules"].items() if k in seen}
    used = set(v[0] for m in c["modules"].values() for v in m["insts"].values())
    c["primitives"] = {k: v for k, v in c["primitives"].items() if k in used}
    for m in c["modules"].values():
        m["timescale"] = None     # not among the things the statement lists (the writer has no `timescale)
    return c


def worker(case):
    kind = case[0]
    core.reset_world()
    core.set_order(case[-1])
    s = core.sdn()
    probs = []
    src, transform, wb, dp = case[1], case[2], case[3], case[4]
    if kind == "bundled":
        path = os.path.join(core.REPO, "example_netlists", "verilog_netlists", src)
        with core.quiet():
            n = s.parse(path)
        tag = "bundled:%s" % src
    else:
        if src[0] == "base":
            text = vw.render(c06.base_vad(), order=list(src[1]), style=src[2], alt=len(src) > 3 and src[3])
            tag = "base-alt" if len(src) > 3 and src[3] else "base"
        elif src[0] == "chain":
            text = vw.render(c06.chain_vad(len(src[1])), order=list(src[1]))
            tag = "chain"
        else:
            text = vw.render(c06.expr_vad(src[1], src[2], src[3], src[4]))
            tag = "expr:%s:%s" % ("+".join(a[0] for a in src[1]) or "empty", src[4])
        after_rejected = src[0] == "base" and transform == "identity" and wb and not dp
        if after_rejected:
            tag += ":after-rejected-sources"
        try:
            n = c06.parse_text(text)
        except Exception as ex:
            # (C06 shows these sources valid: a rejection here comes from what an earlier read left in the process)
            return {"key": core.digest(case), "nontrivial": True, "outcome": "source-rejected", "transitions": 1,
                    "problems": [("reader-rejects-source-text:%s:%s" % (type(ex).__name__, tag), repr(ex)[:300])]}
    tag += ":" + transform
    try:
        if transform in ("uniquify", "flatten"):
            from spydrnet.uniquify import uniquify
            uniquify(n)
        if transform == "flatten":
            from spydrnet.flatten import flatten
            flatten(n)
        if transform == "clone":
            n = n.clone()
    except Exception as ex:
        return {"key": core.digest(case), "nontrivial": False, "outcome": "transform-raised:" + type(ex).__name__, "problems": [], "transitions": 0}
    before = reachable_only(normalise(vcanon.extract(n, unescape=True)))
    key = core.digest((repr(sorted(before["modules"])), repr(case)))
    out = os.path.join(core.scratch_dir(), "rt_%d.v" % os.getpid())
    try:
        with core.quiet():
            # written twice: the text that is read back is the one of the *second* call
            s.compose(n, os.path.join(core.scratch_dir(), "rt_first_%d.v" % os.getpid()), write_blackbox=wb, defparam=dp)
            s.compose(n, out, write_blackbox=wb, defparam=dp)
    except Exception as ex:
        probs.append(("compose-raised:%s:%s" % (type(ex).__name__, tag), repr(ex)[:200]))
        return {"key": key, "nontrivial": True, "outcome": "compose-raised", "problems": probs, "transitions": 1}
    if kind != "bundled" and after_rejected:
        # the written text is not the first one the process reads: sources the reader rejects half-way come before it
        # (cut in the middle of a statement; a multi-bit constant, which is outside the supported subset) - whatever
        # a rejected read leaves behind must not reach the text read afterwards
        for bad in (text[: len(text) * 2 // 3], text.replace("1'b0", "2'b00", 1), text[: len(text) // 3] + " \\half"):
            try:
                c06.parse_text(bad)
            except Exception:
                pass
    try:
        with core.quiet():
            m = s.parse(out)
    except Exception as ex:
        probs.append(("reader-rejects-written-text:%s:%s" % (type(ex).__name__, tag), repr(ex)[:300]))
        return {"key": key, "nontrivial": True, "outcome": "reparse-raised", "problems": probs, "transitions": 2}
    after = reachable_only(normalise(vcanon.extract(m, unescape=True)))
    if not wb:
        # without black boxes the primitives are inferred again from their use
        # (directions and widths are then whatever the uses imply: only the port names are comparable)
        before["primitives"] = {k: sorted(p for p, d, w in v) for k, v in before["primitives"].items()}
        after["primitives"] = {k: sorted(p for p, d, w in v) for k, v in after["primitives"].items()}
    d = vcanon.diff(before, after)
    if d:
        probs.append(("round-trip-differs:%s:%s:wb=%s:defparam=%s" % (d[0], tag, wb, dp), d[1][:400]))
    for c, dd in wf.wf_netlist(m):
        probs.append(("malformed-after-round-trip:%s:%s" % (c, tag), dd))
    return {"key": key, "nontrivial": True, "outcome": "ok", "problems": probs, "transitions": 2}


engine_b.WORKERS[ID] = worker


def cases(tier):
    import itertools
    out = []
    srcs = []
    for order in itertools.permutations(range(3)):
        for style in ("header", "ansi"):
            srcs.append(("base", list(order), style))
            srcs.append(("base", list(order), style, True))   # net types, defparam, `timescale in the source
            srcs.append(("base", list(order), style, "late"))  # ... and nets declared after their use
    for depth in (3, 4):
        for order in itertools.permutations(range(depth)):
            srcs.append(("chain", list(order)))
    def repeats(expr):
        bits = [b for b in vw.expand(expr, {k: (v[0], v[1], True) for k, v in c06.NETS.items()}) if b[0] == "n"]
        return len(bits) != len(set(bits))
    for c in c06.cases(tier):
        # quick: the width-2 port, plus every width-3 expression that names a net bit twice ({w[1:0], w[0]})
        if c[0] == "expr" and len(c) == 6 and (tier == "thorough" or c[2] == 2 or (c[2] == 3 and repeats(c[1]))):
            srcs.append(("expr", c[1], c[2], c[3], c[4]))
    for src in srcs:
        for tr in TRANSFORMS:
            if src[0] in ("expr", "chain") and tr != "identity" and tier != "thorough":
                continue
            for wb in (True, False):
                for dp in (False, True):
                    if src[0] in ("expr", "chain") and (not wb or dp) and tier != "thorough":
                        continue
                    out.append(("text", src, tr, wb, dp, "asc"))
    d = os.path.join(core.REPO, "example_netlists", "verilog_netlists")
    for f in bundled_files(tier):
        big = os.path.getsize(os.path.join(d, f)) > 20000  # uniquify alone takes a minute on the biggest ones
        for tr in TRANSFORMS:
            if big and tr in ("uniquify", "flatten"):
                continue
            out.append(("bundled", f, tr, True, False, "asc"))
        out.append(("bundled", f, "identity", False, True, "asc"))
    return out


def run(tier, seed):
    cov = core.Coverage(
        "Engine B: every reader-built netlist of the input space (C06 texts, bundled .v files) x transform (identity, "
        "uniquify, uniquify+flatten, clone) x composer options is written with the real composer and read back; the "
        "bit-level structures (cables, per-bit endpoints, instances with parameters/attributes, assign pairs, ports) "
        "must be equal; states = distinct (input, transform, options); transitions = compose + parse executions")
    found = {}
    deadline = time.time() + (900 if tier == "quick" else 6000)
    cs = cases(tier)
    k = seed % 7
    engine_b.run_cases(ID, cs[k:] + cs[:k], cov, found, deadline, level="verilog-roundtrip/" + tier)
    engine_b.finish(cov)
    return cov, found


def replay(case):
    return engine_b.replay_case(case)
