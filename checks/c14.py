"""C14 - a refused edit changes nothing (Engine A, step oracle on every refused call)."""
import time

from vlib import core, engine_a, scenarios, ops
from vlib.engine_a import Oracle
from vlib.world import snapshot

ID = "C14"
LEVEL = "model_checking"
ASSUMPTIONS = [
    "scope: every reachable state of the listed scenarios up to the stated depth x every event of the scenario "
    "alphabet over all pool objects of the accepted type (so most calls violate a precondition)",
    "a call is 'refused' when it raises; the pre-state is rebuilt by deterministic replay for the lookup comparison",
]

KEYS = (".NAME", "EDIF.identifier")


def _literals(ev):
    out = set()

    def rec(a):
        if isinstance(a, dict):
            for v in a.values():
                rec(v)
        elif isinstance(a, list):
            for v in a:
                rec(v)
        elif isinstance(a, str):
            out.add(a)

    rec(ev[1])
    return out


_GETTERS = {"N": (("libraries", "get_libraries"),), "L": (("definitions", "get_definitions"),),
            "D": (("ports", "get_ports"), ("cables", "get_cables"), ("children", "get_instances"))}


def lookups(w, ev):
    """Answers of the exact-name lookups of every parent in the pool, for the names/identifiers its
    children carry plus every string literal of the event."""
    extra = _literals(ev)
    out = []
    for i in range(len(w)):
        k = w.kind[i]
        if k not in _GETTERS:
            continue
        o = w[i]
        for lst, getter in _GETTERS[k]:
            fn = getattr(o, getter)
            kids = getattr(o, lst)
            for key in KEYS:
                vals = set(extra)
                for c in kids:
                    v = c._data.get(key)
                    if isinstance(v, str):
                        vals.add(v)
                        vals.add(v.swapcase())
                if key != ".NAME" and not any(key in c._data for c in kids) and not extra:
                    continue
                for v in sorted(vals):
                    try:
                        r = tuple(w.index.get(id(x), -1) for x in fn(v, key=key))
                    except Exception as e:
                        r = ("raised", type(e).__name__)
                    if r:
                        out.append((i, getter, key, v, r))
    return tuple(out)


BULK = {"netlist.remove_libraries_from": "libraries", "library.remove_definitions_from": "definitions",
        "definition.remove_ports_from": "ports", "definition.remove_cables_from": "cables",
        "definition.remove_children_from": "children", "port.remove_pins_from": "pins", "cable.remove_wires_from": "wires",
        "wire.disconnect_pins_from": "pins"}


class C14Oracle(Oracle):
    def pre(self, w, ev):
        # a bulk removal naming something that is not in the container has to be refused, whatever kind of
        # collection (list, set, one-shot iterator, a collection built earlier) carries the names
        self.must_refuse = None
        base = ".".join(ev[0].split(".")[:2])
        if base in BULK and len(ev[1]) == 2 and isinstance(ev[1][1], dict):
            a = ev[1][1]
            spec = a.get("list", a.get("set", a.get("gen")))
            try:
                items = [engine_a.ops.resolve(w, x) for x in spec] if spec is not None else list(w.held[a["held"]])
                have = list(getattr(w[ev[1][0]], BULK[base]))
                foreign = [x for x in items if not any(x is y or (BULK[base] == "pins" and base.startswith("wire") and x == y) for y in have)]
                if foreign:
                    self.must_refuse = "%d of %d named elements are not in %s" % (len(foreign), len(items), BULK[base])
            except Exception:
                pass
        if base == "wire.connect_pin" and len(ev[1]) >= 2:
            # a pin that already sits on a wire - however the caller names it (the stored pin, or an equal handle built
            # from instance and inner pin) - cannot be connected again
            try:
                s_ = core.sdn()
                pin = engine_a.ops.resolve(w, ev[1][1])
                stored = pin
                if isinstance(pin, s_.OuterPin) and pin.instance is not None and pin.inner_pin is not None:
                    stored = pin.instance.pins.get(pin.inner_pin, pin)
                if getattr(stored, "wire", None) is not None:
                    self.must_refuse = "the pin is already connected"
            except Exception:
                pass
        return snapshot(w)

    def step(self, w, ev, outcome, token):
        if outcome[0] != "raised":
            if getattr(self, "must_refuse", None):
                what = "bulk-call-naming-a-stranger-accepted" if ev[0].split(".")[1] != "connect_pin" else "connect-of-a-connected-pin-accepted"
                return [("%s:%s" % (what, ".".join(ev[0].split(".")[:2])), "%s accepted although %s" % (ev[0], self.must_refuse))]
            return []
        bad = []
        after = snapshot(w)
        self.stale, self.digest = True, core.digest(after)
        if after != token:
            bad.append(("refused-call-changed-state:" + outcome[1], _diff(w, token, after)))
        else:
            # same structure: compare the answers of all exact lookups with the rebuilt pre-state
            mine = lookups(w, ev)  # before the rebuild: only one world is indexed at a time
            w0 = engine_a.build(self.scn, self.order, self.hist)
            if lookups(w0, ev) != mine:
                bad.append(("refused-call-changed-lookups:" + outcome[1], "lookup answers differ after a refused %s" % ev[0]))
        return bad

    def nontrivial(self, w, ev, outcome):
        return outcome[0] == "raised"


def _diff(w, a, b):
    (sa, ha), (sb, hb) = a, b
    out = []
    if len(sa) != len(sb):
        out.append("pool grew from %d to %d reachable objects: %s" % (len(sa), len(sb), [x[0] for x in sb[len(sa):]]))
    for i, (x, y) in enumerate(zip(sa, sb)):
        if x != y:
            out.append("object %d %s -> %s" % (i, x, y))
    if ha != hb:
        out.append("namespace tables %s -> %s" % (ha, hb))
    return "; ".join(out)[:600]


engine_a.ORACLES[ID] = C14Oracle


def run(tier, seed):
    cov = core.Coverage(
        "Engine A: in every state reached by BFS every event of the alphabet is fired with every pool object of the "
        "accepted type; each call that raises is compared (identity-level snapshot incl. name index, then all exact "
        "lookups) with its pre-state; non-trivial = a refused call; distinct_nontrivial counts distinct "
        "(state, refused call) pairs (frontier states are pairwise distinct by construction)")
    found = {}
    deadline = time.time() + (900 if tier == "quick" else 6000)
    scns = scenarios.STRUCTURAL + [scenarios.S6, scenarios.S7, scenarios.S8, scenarios.S15] + scenarios.naming_scenarios()
    k = seed % len(scns)
    for scn in scns[k:] + scns[:k]:
        engine_a.explore(ID, scn, tier, cov, found, deadline, count="transitions")
    cov["refused_calls_checked"] = cov["nontrivial_transitions"]
    return cov, found


def replay(case):
    return engine_a.replay_case(case)
