"""C03 - EDIF write-then-read returns the same netlist (Engine B)."""
import os
import time

from vlib import core, design, engine_b, wf, canon, edif_writer, fdesigns, sexpr
from checks import c05

ID = "C03"
LEVEL = "model_checking"
ASSUMPTIONS = [
    "domain as stated by the property: every element named, non-empty bundles, scalar bundles at index 0, acyclic "
    "library dependencies; library/cell order and port base indices are not compared (not in the statement)",
    "inputs: API-built netlists (base designs with option variants, F_hier incl. leaves declared after their users) "
    "and reader-built netlists (bundled .edf files, independent-writer texts) for the idempotence clause",
]


def strip(c):
    c = dict(c)
    c.pop("lib_order", None)
    libs = {}
    for ln, L in c["libs"].items():
        defs = {}
        for dn, D in L["defs"].items():
            D = dict(D)
            D["ports"] = [r[:4] for r in D["ports"]]
            defs[dn] = D
        libs[ln] = {"defs": defs}
    c["libs"] = libs
    return c


def variants(base):
    """API-level variants of a base design (returns list of (tag, ad))."""
    out = [("plain", base)]
    import copy
    v = copy.deepcopy(base)
    for lib in v["libs"]:
        for d in lib["defs"]:
            for p in d["ports"][:1]:
                p["dir"] = "undef"
    out.append(("undefined-direction", v))
    v = copy.deepcopy(base)
    v["libs"].reverse()
    for lib in v["libs"]:
        lib["defs"].reverse()
    out.append(("reversed-declaration-order", v))
    v = copy.deepcopy(base)
    for lib in v["libs"]:
        for d in lib["defs"]:
            for net in d.get("nets", ()):
                if len(net["bits"]) > 1:
                    net["lower"] = 5
                    net["bits"] = list(reversed(net["bits"]))
                for b in net["bits"]:
                    b.reverse()  # pins listed on the wire in another order
    out.append(("bus-base-5-pins-reordered", v))
    # siblings whose names differ only in characters that are not legal in EDIF (they sanitise alike), in every scope
    v = copy.deepcopy(base)
    for lib in v["libs"]:
        for d in lib["defs"]:
            d["ports"] = d["ports"] + [fdesigns.port("tw-1", 1, "in"), fdesigns.port("tw+1", 1, "in"),
                                       fdesigns.port("Q-r", 1, "in"), fdesigns.port("q+r", 1, "in")]
            if d.get("insts"):
                ref = d["insts"][0]["ref"]
                d["insts"] = d["insts"] + [{"name": "blk[0].u", "ref": ref}, {"name": "blk(0).u", "ref": ref},
                                           {"name": "Stage/ff", "ref": ref}, {"name": "stage.ff", "ref": ref},
                                           {"name": "k.n", "ref": ref}]    # the same odd name in every cell ...
                if v.get("top") and d["name"] == v["top"][1]:
                    # ... next to its sanitised form in the last one, listed after it and in front of it
                    d["insts"] = d["insts"] + [{"name": "k_n", "ref": ref}, {"name": "m_n", "ref": ref}]
                d["insts"] = d["insts"] + [{"name": "m.n", "ref": ref}]
            if d.get("insts"):
                # three siblings that sanitise alike and differ in letter case: the suffixed candidate of the third
                # collides with the suffixed identifier the second was given
                ref = d["insts"][0]["ref"]
                d["insts"] = d["insts"] + [{"name": "g/1", "ref": ref}, {"name": "g_1", "ref": ref}, {"name": "G_1", "ref": ref},
                                           {"name": "h_sdn_1_", "ref": ref}, {"name": "keep", "ref": ref}, {"name": "h", "ref": ref}, {"name": "H", "ref": ref}]
            if d.get("nets") is not None and d.get("insts"):
                d["nets"] = d["nets"] + [{"name": "t/1", "bits": [[]]}, {"name": "t_1", "bits": [[]]}, {"name": "T_1", "bits": [[]]}]
                d["nets"] = d["nets"] + [{"name": "n$1", "bits": [[]]}, {"name": "n#1", "bits": [[]]},
                                         {"name": "Bus.x", "bits": [[]]}, {"name": "bus:x", "bits": [[]]}]
        lib["defs"] = lib["defs"] + [{"name": "c-1", "ports": [], "insts": [], "nets": []}, {"name": "c+1", "ports": [], "insts": [], "nets": []}]
    v["libs"] = v["libs"] + [{"name": "l-1", "defs": [{"name": "x", "ports": [], "insts": [], "nets": []}]},
                             {"name": "l+1", "defs": [{"name": "x", "ports": [], "insts": [], "nets": []}]}]
    out.append(("sanitised-twins", v))
    # twelve siblings whose names agree in their first 255 characters (a 16-bit register deep inside a flattened
    # hierarchy): the counter of the generated suffix passes from 9 to 10
    v = copy.deepcopy(base)
    if v.get("top"):
        for lib in v["libs"]:
            for d in lib["defs"]:
                if d["name"] == v["top"][1] and d.get("insts"):
                    ref = d["insts"][0]["ref"]
                    d["insts"] = d["insts"] + [{"name": "i" * 255 + "_%d" % k, "ref": ref} for k in range(12)]
                    d["nets"] = (d.get("nets") or []) + [{"name": "n" * 255 + "[%d]x" % k, "bits": [[]]} for k in range(12)]
                    d["ports"] = d["ports"] + [fdesigns.port("p" * 255 + "_%d" % k, 1, "in") for k in range(12)]
        out.append(("twelve-long-siblings", v))
    # a library without any cell (created ahead of use / emptied)
    v = copy.deepcopy(base)
    v["libs"] = [{"name": "empty_first", "defs": []}] + v["libs"] + [{"name": "empty_last", "defs": []}]
    out.append(("empty-libraries", v))
    # names and string values containing %<digits>% (an EDIF character escape, which this reader and writer take literally)
    v = copy.deepcopy(base)
    for lib in v["libs"]:
        for d in lib["defs"]:
            for x in d.get("insts", ()):
                x["name"] = x["name"] + "_%50%_s"
                if isinstance(x.get("props"), list):
                    x["props"] = x["props"] + [["PCT", "%34%"]]
            for net in d.get("nets", ()):
                for b in net["bits"]:
                    for e in b:
                        if e[0] == "I":
                            e[1] = e[1] + "_%50%_s"
    out.append(("percent-escapes", v))
    # names that are not legal EDIF identifiers because of one character, at each position
    for tag, f in (("illegal-last-char", lambda n: n + "$"), ("illegal-first-char", lambda n: "$" + n),
                   ("illegal-middle-char", lambda n: n[:1] + "$" + n[1:])):
        v = copy.deepcopy(base)
        ren = {}
        for lib in v["libs"]:
            ren[lib["name"]] = f(lib["name"])
        for lib in v["libs"]:
            for d in lib["defs"]:
                for x in d.get("insts", ()):
                    x["ref"] = [ren[x["ref"][0]], f(x["ref"][1])]
                    x["name"] = f(x["name"])
                for p in d["ports"]:
                    p["name"] = f(p["name"])
                    p.pop("display", None)
                for net in d.get("nets", ()):
                    net["name"] = f(net["name"])
                    for b in net["bits"]:
                        for e in b:
                            e[1] = f(e[1])
                            if e[0] == "I":
                                e[2] = f(e[2])
                d["name"] = f(d["name"])
            lib["name"] = ren[lib["name"]]
        if v.get("top"):
            v["top"] = [ren[v["top"][0]], f(v["top"][1])]
        out.append((tag, v))
    return out


def to_api(ad):
    for lib in ad["libs"]:
        for d in lib["defs"]:
            for x in d.get("insts", ()):
                if isinstance(x.get("props"), list):
                    x["props"] = {"EDIF.properties": [{"identifier": edif_writer.ident(k), "value": v,
                                                       **({"original_identifier": k} if edif_writer.ident(k) != k else {})}
                                                      for k, v in x["props"]]}
    return ad


def worker(case):
    kind, order = case[0], case[-1]
    core.reset_world()
    core.set_order(order)
    s = core.sdn()
    probs = []
    scratch = core.scratch_dir()
    if kind == "api":
        _, base, vi, order = case
        tag, ad = variants(fdesigns.BASES[base]())[vi if isinstance(vi, int) else 0]
        if not isinstance(vi, int):
            tag = vi
        n = design.build_netlist(to_api(ad))
        tag = "%s:%s" % (base, tag)
    elif kind == "hier":
        _, desc, order = case
        ad = design.materialize((desc[0], tuple(desc[1]), desc[2]))
        for lib in ad["libs"]:
            for d in lib["defs"]:
                for p in d["ports"]:
                    if p["dir"] == "undef":
                        p["dir"] = "inout"
        n = design.build_netlist(ad)
        tag = "%s:%s" % (desc[0], desc[2])
    elif kind == "bundled":
        _, fname, order = case
        with core.quiet():
            n = s.parse(os.path.join(core.REPO, "example_netlists", "EDIF_netlists", fname))
        tag = "bundled:" + fname
    elif kind == "pipeline":
        # read by the EDIF reader, transformed, then written and read again (what a tool chain does)
        _, base, transform, order = case
        n = c05.parse_text(edif_writer.render(fdesigns.BASES[base](), rich=True))
        from spydrnet.uniquify import uniquify
        from spydrnet.flatten import flatten
        try:
            if transform in ("uniquify", "flatten", "uniquify-twice"):
                uniquify(n)
            if transform == "uniquify-twice":
                uniquify(n)
            if transform == "flatten":
                flatten(n)
            if transform == "clone":
                n = n.clone()
            if transform == "front-insert":
                # next to a sibling whose identifier differs from its name, a hand-built element *named* like that
                # identifier is inserted in front (the writer has to find it another identifier)
                sdn_ = core.sdn()
                for l in n.libraries:
                    for d in l.definitions:
                        for x in list(d.children):
                            i_ = x.get("EDIF.identifier")
                            if i_ and i_ != x.name and not any(y.name == i_ for y in d.children):
                                y = sdn_.Instance(name=i_)
                                y.reference = x.reference
                                d.add_child(y, position=0)
                                break
                        for c_ in list(d.cables):
                            i_ = c_.get("EDIF.identifier")
                            if i_ and i_ != c_.name and not any(y.name == i_ for y in d.cables):
                                nc = sdn_.Cable(name=i_)
                                d.add_cable(nc, position=0)
                                nc.create_wire()
                                break
            if transform == "clone-of-library-added":
                lib2 = n.libraries[-1].clone()
                lib2.name = "copy_of_" + n.libraries[-1].name
                lib2["EDIF.identifier"] = "copy_of_" + n.libraries[-1]["EDIF.identifier"]
                n.add_library(lib2)
        except Exception as ex:
            return {"key": core.digest(case), "nontrivial": False, "outcome": "transform-raised:" + type(ex).__name__,
                    "problems": [("transform-raised:%s:%s:%s" % (type(ex).__name__, base, transform), repr(ex)[:200])], "transitions": 0}
        tag = "pipeline:%s:%s" % (base, transform)
    else:  # text from the independent writer, then parsed
        _, base, opts, order = case
        opts = dict(opts)
        ad0 = fdesigns.BASES[base]()
        if opts.pop("long_ids", False):
            ad0 = fdesigns.long_identifiers(ad0)
        if opts.pop("dup_instances", False):
            ad0 = fdesigns.dup_instances(ad0)[0]
        n = c05.parse_text(edif_writer.render(ad0, **opts))
        tag = "reparsed:" + base
    if kind == "api" and case[2] == "edited-after-export":
        # a netlist that was exported once (identifiers assigned) is edited: new elements go in FRONT of the
        # existing ones and carry names that collide with existing identifiers only after EDIF-ification
        with core.quiet():
            s.compose(n, os.path.join(scratch, "first_%d.edf" % os.getpid()))
        top = n.top_instance.reference
        leaf = next(x.reference for x in top.children)
        old_i = top.children[0]
        old_c = top.cables[0]
        x = s.Instance(name=old_i.name.swapcase() if old_i.name.swapcase() != old_i.name else old_i.name + "-")
        x.reference = leaf
        top.add_child(x, position=0)
        top.add_cable(s.Cable(name=old_c.name.swapcase() if old_c.name.swapcase() != old_c.name else old_c.name + "-"), position=0)
        top.cables[0].create_wire()
    if kind == "api" and case[2] == "copies-added-after-export":
        # exported once (every element now carries an identifier); then instances and cables are cloned inside their
        # definition and cells inside their library, under new names: the copies carry their originals' identifiers
        with core.quiet():
            s.compose(n, os.path.join(scratch, "first_%d.edf" % os.getpid()))
        for lib in list(n.libraries):
            for d in list(lib.definitions):
                for x in list(d.children)[:2]:
                    y = x.clone()
                    y.name = x.name + "_copy"
                    d.add_child(y)
                for c in list(d.cables)[:2]:
                    c2 = c.clone()
                    c2.name = c.name + "_copy"
                    d.add_cable(c2)
            if lib.definitions:
                d2 = lib.definitions[0].clone()
                d2.name = lib.definitions[0].name + "_copy"
                lib.add_definition(d2)
    if kind == "api" and case[2] == "port-reshaped-after-export":
        # exported once; then the pins of every array port are reversed (instances keep their connections on the
        # same pins, which now sit at other positions) and the netlist is exported again
        with core.quiet():
            s.compose(n, os.path.join(scratch, "first_%d.edf" % os.getpid()))
        for lib in n.libraries:
            for d in lib.definitions:
                for p_ in d.ports:
                    if len(p_.pins) > 1:
                        p_.pins = list(reversed(list(p_.pins)))
    if kind == "api" and case[2] == "cell-appended-after-export":
        # exported once; then a new cell is created in the top cell's own library (it lands *after* its user in
        # that library) and instantiated by the top cell
        with core.quiet():
            s.compose(n, os.path.join(scratch, "first_%d.edf" % os.getpid()))
        top = n.top_instance.reference
        helper = top.library.create_definition(name="late_helper")
        helper.create_port(name="h", pins=1)
        top.create_child(name="late0", reference=helper)
    if kind == "api" and case[2] == "library-appended-after-export":
        # exported once; then a new library is appended (it comes *after* its user in the netlist) and the top
        # cell instantiates one of its cells
        with core.quiet():
            s.compose(n, os.path.join(scratch, "first_%d.edf" % os.getpid()))
        top = n.top_instance.reference
        newlib = n.create_library(name="voters")
        vdef = newlib.create_definition(name="voter")
        vdef.create_port(name="v", pins=1)
        top.create_child(name="vote0", reference=vdef)
    before = strip(canon.canon_netlist(n))
    key = core.digest((repr(before), order))
    out = os.path.join(scratch, "rt_%d.edf" % os.getpid())
    try:
        with core.quiet():
            s.compose(n, out)
    except Exception as ex:
        probs.append(("compose-raised:%s:%s" % (type(ex).__name__, tag), repr(ex)[:200]))
        return {"key": key, "nontrivial": True, "outcome": "compose-raised", "problems": probs, "transitions": 1}
    text = open(out).read()
    # independent reading of the written text (every reference must be declared earlier in the file)
    try:
        ind = sexpr.interpret(sexpr.parse(text))
        amb = ind.pop("ambiguous")
        ind = strip(ind)
        if amb:  # duplicate / range-prefixed original names: the docs do not fix their reading
            ind = before
        for L in ind["libs"].values():
            L.pop("id", None)
            for D in L["defs"].values():
                D.pop("id", None)
                D["insts"] = {k: v[:3] for k, v in D["insts"].items()}
                D["nets"] = {k: v[:4] for k, v in D["nets"].items()}
        d = canon.diff(before, ind)
        if d:
            probs.append(("written-text-differs:%s:%s" % (d[0], tag), d[1][:400]))
    except Exception as ex:
        probs.append(("written-text-unreadable-independently:%s:%s" % (type(ex).__name__, tag), repr(ex)[:200]))
    try:
        with core.quiet():
            m = s.parse(out)
    except Exception as ex:
        probs.append(("reader-rejects-written-file:%s:%s" % (type(ex).__name__, tag), repr(ex)[:200]))
        return {"key": key, "nontrivial": True, "outcome": "reparse-raised", "problems": probs, "transitions": 2}
    after = strip(canon.canon_netlist(m))
    d = canon.diff(before, after)
    if d:
        probs.append(("round-trip-differs:%s:%s" % (d[0], tag), d[1][:400]))
    for c, dd in wf.wf_netlist(m):
        probs.append(("malformed-after-round-trip:%s:%s" % (c, tag), dd))
    return {"key": key, "nontrivial": True, "outcome": "ok", "problems": probs, "transitions": 2}


engine_b.WORKERS[ID] = worker


def cases(tier):
    out = []
    for base in fdesigns.BASES:
        for vi in range(len(variants(fdesigns.BASES[base]()))):
            for order in core.ORDER_VARIANTS:
                out.append(("api", base, vi, order))
        out.append(("api", base, "edited-after-export", "asc"))
        out.append(("api", base, "library-appended-after-export", "asc"))
        out.append(("api", base, "copies-added-after-export", "asc"))
        out.append(("api", base, "cell-appended-after-export", "asc"))
        out.append(("api", base, "port-reshaped-after-export", "asc"))
    for desc in design.family_hier(tier, variants=("plain", "two-libraries", "dangling-nets")):
        if tier == "thorough" or desc[0] in ("K1-chain2", "K8-bus", "K4-wire-only") or sum(desc[1]) % 11 == 0:
            out.append(("hier", desc, "asc"))
    for f in c05.bundled_files(tier):
        out.append(("bundled", f, "asc"))
    for base in fdesigns.BASES:
        for opts in fdesigns.edif_option_product(tier):
            if opts["design_case"] == "decl":
                out.append(("reparsed", base, opts, "asc"))
        for transform in ("uniquify", "uniquify-twice", "flatten", "clone", "clone-of-library-added", "front-insert"):
            for order in core.ORDER_VARIANTS:
                out.append(("pipeline", base, transform, order))
    return out


def run(tier, seed):
    cov = core.Coverage(
        "Engine B: every netlist of the input space (API-built base designs x variants, F_hier designs, reader-built "
        "netlists from bundled files and independent-writer texts) is written with the real composer, read back "
        "with the real reader and additionally read by an independent s-expression interpreter; name-keyed canonical "
        "structures must agree; states = distinct canonical inputs; transitions = compose + parse executions")
    found = {}
    deadline = time.time() + (900 if tier == "quick" else 6000)
    cs = cases(tier)
    k = seed % 7
    engine_b.run_cases(ID, cs[k:] + cs[:k], cov, found, deadline, level="edif-roundtrip/" + tier)
    engine_b.finish(cov)
    return cov, found


def replay(case):
    return engine_b.replay_case(case)
