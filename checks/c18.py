"""C18 - EBLIF files are read faithfully and survive write-then-read (Engine B)."""
import itertools
import os
import re
import time

from vlib import core, engine_b, wf, eblif_writer as ew, ecanon

ID = "C18"
LEVEL = "model_checking"
ASSUMPTIONS = [
    "texts come from vlib/eblif_writer.py (independent of the repository's composer): base flat designs x every "
    "statement order x line-continuation positions x comments x black-box models declared before / after / not at all",
    "every instance carries a .cname (instance identity); nets are compared as sets of pins",
]


def base(which="B1"):
    models = [{"name": "LUT2", "inputs": ["I0", "I1"], "outputs": ["O"]},
              {"name": "BUF", "inputs": ["I"], "outputs": ["O"]},
              {"name": "WIDE", "inputs": ["D[0]", "D[1]", "D[2]"], "outputs": ["Q"]}]
    if which == "B1":
        items = [
            {"kind": "subckt", "model": "LUT2", "conns": [["I0", "a[0]"], ["I1", "a[1]"], ["O", "n1"]], "cname": "lut_a",
             "attr": {"LOC": "SLICE_X0"}, "param": {"INIT": "0110"}},
            {"kind": "gate", "model": "BUF", "conns": [["I", "b"], ["O", "n2"]], "cname": "g0"},
            {"kind": "subckt", "model": "WIDE", "conns": [["D[0]", "n1"], ["D[1]", "n2"], ["D[2]", "unconn"], ["Q", "y"]], "cname": "w0"},
            {"kind": "names", "ins": ["n1", "n2"], "out": "n3", "covers": ["11 1"], "cname": "nm0"},
            {"kind": "latch", "in": "n3", "out": "q[1]", "type": "re", "ctrl": "clk", "init": 0, "cname": "l0"},
        ]
        return {"name": "top", "inputs": ["clk", "a[0]", "a[1]", "b"], "outputs": ["y", "q[1]"], "items": items, "models": models}
    if which == "B2":  # .conn and a model instanced with a growing port set
        items = [
            {"kind": "subckt", "model": "WIDE", "conns": [["D[0]", "a"], ["Q", "n1"]], "cname": "w0"},
            {"kind": "subckt", "model": "WIDE", "conns": [["D[0]", "n1"], ["D[1]", "b"], ["D[2]", "n4"], ["Q", "y"]], "cname": "w1"},
            {"kind": "gate", "model": "BUF", "conns": [["I", "n2"], ["O", "z"]], "cname": "g0"},
            {"kind": "conn", "a": "n1", "b": "n2"},
            {"kind": "conn", "a": "b", "b": "n4"},
        ]
        return {"name": "top2", "inputs": ["a", "b"], "outputs": ["y", "z"], "items": items, "models": models[1:]}
    if which == "B3":  # constants and a second latch sharing type/init tokens
        items = [
            {"kind": "names", "ins": [], "out": "one", "covers": ["1"], "cname": "c1"},
            {"kind": "names", "ins": [], "out": "zero", "covers": [], "cname": "c0"},
            {"kind": "latch", "in": "one", "out": "q0", "type": "re", "ctrl": "clk", "init": 0, "cname": "l0"},
            {"kind": "latch", "in": "zero", "out": "q1", "type": "re", "ctrl": "clk", "init": 0, "cname": "l1"},
        ]
        return {"name": "top3", "inputs": ["clk"], "outputs": ["q0", "q1"], "items": items, "models": []}
    if which == "B4":  # a feed-through (.conn between two model ports) and a port aliased to an internal net
        items = [
            {"kind": "gate", "model": "BUF", "conns": [["I", "a"], ["O", "n1"]], "cname": "g0", "attr": {"K": "v"}},
            {"kind": "subckt", "model": "WIDE", "conns": [["D[0]", "n1"], ["D[1]", "unconn"], ["D[2]", "b"], ["Q", "q"]], "cname": "w0", "param": {"P": "1"}},
            {"kind": "conn", "a": "a", "b": "y"},
            {"kind": "conn", "a": "b", "b": "n1"},
        ]
        return {"name": "top4", "inputs": ["a", "b"], "outputs": ["y", "q"], "items": items, "models": models[1:]}
    if which == "B5":  # a star of .conn statements (p-q, q-r, p-s) and a .names with twelve inputs
        ins = ["d%d" % k for k in range(12)]
        items = [
            {"kind": "conn", "a": "p", "b": "q"},
            {"kind": "conn", "a": "q", "b": "r"},
            {"kind": "conn", "a": "p", "b": "s"},
            {"kind": "gate", "model": "BUF", "conns": [["I", "r"], ["O", "o1"]], "cname": "g0"},
            {"kind": "gate", "model": "BUF", "conns": [["I", "s"], ["O", "o2"]], "cname": "g1"},
            {"kind": "names", "ins": ins, "out": "wide", "covers": ["1" * 12 + " 1"], "cname": "nm12"},
        ]
        return {"name": "top5", "inputs": ["p"] + ins, "outputs": ["o1", "o2", "wide"], "items": items, "models": models[1:2]}
    if which == "B6":  # bit 1 of a two-bit model port joined to another net; a cycle of .conn statements (its last statement joins what is already joined)
        items = [
            {"kind": "gate", "model": "BUF", "conns": [["I", "x"], ["O", "o1"]], "cname": "g0"},
            {"kind": "conn", "a": "a[1]", "b": "x"},
            {"kind": "conn", "a": "p", "b": "q"},
            {"kind": "conn", "a": "q", "b": "r"},
            {"kind": "conn", "a": "r", "b": "p"},
            {"kind": "gate", "model": "BUF", "conns": [["I", "r"], ["O", "o2"]], "cname": "g1"},
        ]
        return {"name": "top6", "inputs": ["a[0]", "a[1]", "p"], "outputs": ["o1", "o2"], "items": items, "models": models[1:2]}
    if which == "B7":  # .clock, a port listed as input and as output, instances without .cname
        items = [
            {"kind": "subckt", "model": "BUF", "conns": [["I", "a"], ["O", "sig_unconnected"]]},
            {"kind": "subckt", "model": "BUF", "conns": [["I", "sig_unconnected"], ["O", "io"]], "attr": {"K": "v"}},
            {"kind": "gate", "model": "BUF", "conns": [["I", "clk"], ["O", "q"]], "cname": "g"},
            {"kind": "subckt", "model": "LUT2", "conns": [["I0", "io"], ["I1", "a"], ["O", "q2"]]},
        ]
        return {"name": "top7", "inputs": ["a", "clk", "io"], "outputs": ["q", "io", "q2"], "clock": ["clk"], "items": items,
                "models": models[:2]}
    if which == "B8":  # latches that leave out type / control / initial value, before and after complete ones
        items = [
            {"kind": "latch", "in": "a", "out": "q0", "cname": "l_short"},
            {"kind": "latch", "in": "a", "out": "q1", "type": "re", "ctrl": "clk", "init": 0, "cname": "l_full"},
            {"kind": "latch", "in": "q0", "out": "q2", "type": "fe", "ctrl": "clk", "cname": "l_noinit"},
            {"kind": "gate", "model": "BUF", "conns": [["I", "q2"], ["O", "y"]], "cname": "g"},
        ]
        return {"name": "top8", "inputs": ["a", "clk"], "outputs": ["q1", "y"], "items": items, "models": models[1:2]}
    if which == "B9":  # .conn on the lowest and on a middle bit of a three-bit port (the bits above keep their index)
        items = [
            {"kind": "gate", "model": "BUF", "conns": [["I", "x"], ["O", "y"]], "cname": "g0"},
            {"kind": "gate", "model": "BUF", "conns": [["I", "a[2]"], ["O", "z"]], "cname": "g1"},
            {"kind": "conn", "a": "a[0]", "b": "x"},
            {"kind": "conn", "a": "a[1]", "b": "w"},
            {"kind": "gate", "model": "BUF", "conns": [["I", "w"], ["O", "v"]], "cname": "g2"},
        ]
        return {"name": "top9", "inputs": ["a[0]", "a[1]", "a[2]"], "outputs": ["y", "z", "v"], "items": items, "models": models[1:2]}
    if which == "B10":  # nets of the top model named like the ports of a black box (declared before or after it)
        dff = {"name": "DFF", "inputs": ["D", "clk"], "outputs": ["Q"]}
        items = [
            {"kind": "subckt", "model": "DFF", "conns": [["D", "D"], ["clk", "clk"], ["Q", "Q"]], "cname": "f0"},
            {"kind": "subckt", "model": "DFF", "conns": [["D", "Q"], ["clk", "clk"], ["Q", "O"]], "cname": "f1"},
            {"kind": "gate", "model": "BUF", "conns": [["I", "O"], ["O", "I"]], "cname": "g0"},
        ]
        return {"name": "top10", "inputs": ["D", "clk"], "outputs": ["Q", "I"], "items": items, "models": [dff, models[1]]}
    raise KeyError(which)


def parse_text(text):
    s = core.sdn()
    path = os.path.join(core.scratch_dir(), "in_%d.eblif" % os.getpid())
    with open(path, "w") as f:
        f.write(text)
    with core.quiet():
        return s.parse(path)


def worker(case):
    kind = case[0]
    core.reset_world()
    core.set_order(case[-1])
    s = core.sdn()
    probs = []
    if kind == "bundled":
        path = os.path.join(core.REPO, "example_netlists", "eblif_netlists", case[1])
        with core.quiet():
            n = s.parse(path)
        tag = "bundled:" + case[1]
        key = core.digest(case)
        exp = None
    else:
        _, which, order, cont, comments, models, _ = case
        ead = base(which)
        rev = cont == "rev"
        cont = None if rev else cont
        text = ew.render(ead, order=list(order), continuation=cont, comments=comments, models=models, reverse_conns=rev)
        key = core.digest(text)
        conn_early = any(ead["items"][i]["kind"] == "conn" and any(ead["items"][j]["kind"] != "conn" for j in order[pos + 1:])
                         for pos, i in enumerate(order))
        tag = "%s:models-%s%s%s" % (which, models, ":conn-before-use" if conn_early else "", ":reversed-formals" if rev else ":split-port-lists" if cont == "split" else ":continued" if cont else "")
        exp = ew.expected(ead, models, list(order))
        try:
            n = parse_text(text)
        except Exception as ex:
            probs.append(("reader-rejected-valid-file:%s:%s" % (type(ex).__name__, tag), repr(ex)[:300]))
            return {"key": key, "nontrivial": True, "outcome": "raised", "problems": probs, "transitions": 1}
    got = ecanon.extract(n)
    if exp is not None:
        exp = ecanon.match_nameless(exp, got)
        d = ecanon.diff(exp, got)
        if d:
            probs.append(("parsed-design-differs:%s:%s" % (d[0], tag), d[1][:400]))
        for name in exp["primitives"]:
            if got["leaf"].get(name) is not True:
                probs.append(("black-box-not-a-leaf-primitive:" + tag, name))
    for c, dd in wf.wf_netlist(n) + wf.shared_metadata(n):
        probs.append(("malformed-netlist:%s:%s" % (c, tag), dd))
    # write-then-read
    out = os.path.join(core.scratch_dir(), "rt_%d.eblif" % os.getpid())
    try:
        with core.quiet():
            s.compose(n, out)
            m = s.parse(out)
    except Exception as ex:
        probs.append(("round-trip-raised:%s:%s" % (type(ex).__name__, tag), repr(ex)[:300]))
        return {"key": key, "nontrivial": True, "outcome": "rt-raised", "problems": probs, "transitions": 2}
    back = ecanon.extract(m)
    d = ecanon.diff(got, back, check_prims=False)
    if d:
        probs.append(("round-trip-differs:%s:%s" % (d[0], tag), d[1][:400]))
    # written without .cname lines (instances are then named by the reader): types and attached data stay
    if kind != "bundled" and order == sorted(order) and not cont and models == "after":
        try:
            with core.quiet():
                s.compose(n, out, write_eblif_cname=False)
                m3 = s.parse(out)
            data = lambda e: sorted((v[0], v[1], sorted(v[2].items()), sorted(v[3].items())) for v in e["insts"].values())
            if data(ecanon.extract(m3)) != data(got):
                probs.append(("round-trip-without-cname-differs:instance-data:" + tag, "expected %r got %r" % (data(got), data(ecanon.extract(m3)))))
        except Exception as ex:
            probs.append(("round-trip-without-cname-raised:%s:%s" % (type(ex).__name__, tag), repr(ex)[:300]))
    # parse -> edit -> write -> read: every instance is renamed, one is copied under a new name
    for x in list(n.top_instance.reference.children):
        x.name = x.name + "_r"
    kids = list(n.top_instance.reference.children)
    if kids:
        twin = kids[0].clone()
        twin.name = kids[0].name + "_twin"
        n.top_instance.reference.add_child(twin)
    got2 = ecanon.extract(n)
    try:
        with core.quiet():
            s.compose(n, out)
            m2 = s.parse(out)
    except Exception as ex:
        probs.append(("round-trip-after-edit-raised:%s:%s" % (type(ex).__name__, tag), repr(ex)[:300]))
        return {"key": key, "nontrivial": True, "outcome": "rt2-raised", "problems": probs, "transitions": 4}
    d = ecanon.diff(got2, ecanon.extract(m2), check_prims=False)
    if d:
        probs.append(("round-trip-after-edit-differs:%s:%s" % (d[0], tag), d[1][:400]))
    nt = 5
    if exp is not None and any(it["kind"] == "conn" for it in ead["items"]):
        # ... and a file read afterwards in the same process is read on its own: the same design without its .conn
        # statements (the nets they merged stay apart)
        ead2 = dict(ead, items=[it for it in ead["items"] if it["kind"] != "conn"])
        order2 = list(range(len(ead2["items"])))
        nt += 1
        # ... also when a draft of the design was refused in between: the same text with every .cname alike (two
        # instances under one name), refused after its .conn statements had been read
        names = re.findall(r"^\.cname (\S+)$", text, re.M)
        if len(set(names)) > 1:
            draft = re.sub(r"^\.cname \S+$", ".cname " + names[0], text, flags=re.M)
            try:
                parse_text(draft)
            except Exception:
                nt += 1
        try:
            n2 = parse_text(ew.render(ead2, order=order2, models=models))
            exp2 = ew.expected(ead2, models, order2)
            got3 = ecanon.extract(n2)
            d = ecanon.diff(ecanon.match_nameless(exp2, got3), got3)
            if d:
                probs.append(("file-read-afterwards-differs:%s:%s" % (d[0], tag), d[1][:400]))
        except Exception as ex:
            probs.append(("file-read-afterwards-rejected:%s:%s" % (type(ex).__name__, tag), repr(ex)[:300]))
    return {"key": key, "nontrivial": True, "outcome": "ok", "problems": probs, "transitions": nt}


engine_b.WORKERS[ID] = worker


def cases(tier):
    out = []
    for which in ("B1", "B2", "B3", "B4", "B5", "B6", "B7", "B8", "B9", "B10"):
        nitems = len(base(which)["items"])
        for order in itertools.permutations(range(nitems)):
            for models in ("after", "before", "none"):
                conts = (None, 3, "rev", "lone", "split") if tier == "quick" else (None, 2, 3, 4, "rev", "lone", "split")
                if nitems > 5:
                    conts = (None, "lone", "split")
                for cont in conts:
                    for comments in (False, True):
                        if tier == "quick" and comments and (cont or models != "after"):
                            continue
                        out.append(("text", which, list(order), cont, comments, models, "asc"))
    d = os.path.join(core.REPO, "example_netlists", "eblif_netlists")
    for f in sorted(os.listdir(d)):
        if f.endswith(".zip") and os.path.getsize(os.path.join(d, f)) > 0:
            out.append(("bundled", f, "asc"))
    return out


def run(tier, seed):
    cov = core.Coverage(
        "Engine B: EBLIF texts rendered by an independent writer from flat abstract designs (.subckt/.gate/.names/"
        ".latch/.conn, bus-indexed nets, unconn actuals, .cname/.attr/.param, a model instanced with a growing port "
        "set) in every statement order x continuation positions x comments x black-box placement are parsed; "
        "instances, data, ports and nets-as-pin-sets must equal the model; then compose+parse must reproduce them; "
        "bundled .eblif files go through the same well-formedness and round-trip clauses")
    found = {}
    deadline = time.time() + (900 if tier == "quick" else 6000)
    cs = cases(tier)
    k = seed % 7
    engine_b.run_cases(ID, cs[k:] + cs[:k], cov, found, deadline, level="eblif-texts/" + tier)
    engine_b.finish(cov)
    return cov, found


def replay(case):
    return engine_b.replay_case(case)
