"""C15 - rejected input fails cleanly and leaves no process-wide residue (fault enumeration)."""
import os
import re
import signal
import sys
import time

from vlib import canon, core, engine_b, wf, fdesigns, edif_writer, verilog_writer as vw, eblif_writer as ew
from checks import c06, c18

ID = "C15"
LEVEL = "fault_enumeration"
ASSUMPTIONS = [
    "base files: valid EDIF / Verilog / EBLIF texts from the independent writers; faults: every single token-level "
    "corruption - truncation at each token boundary, deletion, duplication, replacement by each member of a small "
    "alphabet - and, for EDIF, each reference token replaced by an undeclared name",
    "'raises an error' = any Exception; a hang is a wall-clock alarm confirmed by a deterministic line budget",
    "residue = every module-level mutable global of spydrnet.*, the active naming policy (class and instance "
    "attribute), listener and lookup registries, and the behaviour of a fixed probe script",
]
REPL = ["(", ")", "zz_undeclared", "pageSize", "7", ""]
TIMEOUT_S = 20
LINE_BUDGET = 3_000_000


def bases():
    out = {}
    for b in ("E1", "E3", "E5"):
        out["edif:" + b] = (".edf", edif_writer.render(fdesigns.BASES[b]()))
    import copy
    e8 = copy.deepcopy(fdesigns.BASES["E4"]())
    e8["libs"][2]["defs"][0]["insts"].append({"name": "u_inv2", "ref": ["gates", "INV"]})
    out["edif:E8"] = (".edf", edif_writer.render(e8))
    out["verilog:base"] = (".v", vw.render(c06.base_vad()))
    out["verilog:chain"] = (".v", vw.render(c06.chain_vad(3), order=[2, 0, 1]))
    for b in ("B1", "B2"):
        out["eblif:" + b] = (".eblif", ew.render(c18.base(b), comments=(b == "B1")))
    out["eblif:B2-conn-first"] = (".eblif", ew.render(c18.base("B2"), order=[3, 4, 0, 1, 2]))
    # the other spellings / surrounding constructs of the supported subsets
    out["verilog:late"] = (".v", vw.render(c06.base_vad(), alt="late"))
    out["edif:E9-rich"] = (".edf", edif_writer.render(fdesigns.BASES["E9"](), rich=True))
    out["eblif:B7"] = (".eblif", ew.render(c18.base("B7"), comments=True))
    # every library, cell, port and instance carries an identifier of its own next to its (legal) name
    import copy
    e3 = copy.deepcopy(fdesigns.BASES["E3"]())   # (the bases share port / leaf-cell dictionaries: never edit them in place)
    for lib in e3["libs"]:
        lib["id"] = lib["name"] + "_LID"
        for d in lib["defs"]:
            d["id"] = d["name"] + "_CID"
            for el in list(d["ports"]) + list(d.get("insts", ())):
                if re.match(r"^[A-Za-z][A-Za-z0-9_]*$", el["name"]):
                    el["id"] = el["name"] + "_EID"
    out["edif:E3-own-identifiers"] = (".edf", edif_writer.render(e3))
    return out


def tokenize(ext, text):
    if ext == ".edf":
        return re.findall(r'\(|\)|"[^"]*"|[^\s()]+', text), " "
    if ext == ".v":
        return re.findall(r'\\\S+\s|/\*.*?\*/|//[^\n]*\n|\(\*|\*\)|`\w+|[A-Za-z_][\w$]*|\d+\'[bhd][0-9a-fA-F]+|\d+|"[^"]*"|\S', text, re.S), " "
    toks = []
    for line in text.split("\n"):
        toks += line.split(" ")
        toks.append("\n")
    return [t for t in toks if t != ""], " "


def declared_names(ext, tokens):
    """names a file declares (modules / cells / models): replacing a token by one of them yields
    recursive or mis-typed references rather than plainly unknown ones."""
    kw = {".v": ("module",), ".edf": ("cell", "library", "instance"), ".eblif": (".model",)}[ext]
    out = []
    for a, b in zip(tokens, tokens[1:]):
        if a.lower() in kw and b not in out and b not in ("(", ")"):
            out.append(b.strip())
    out = out[:6]
    if ext == ".edf":
        # original names given by (rename identifier "name"): a reference spelled like a *name* names nothing
        more = []
        for a, b, c in zip(tokens, tokens[1:], tokens[2:]):
            nm = c.strip('"')
            if a.lower() == "rename" and c.startswith('"') and nm != b and re.match(r"^[A-Za-z][A-Za-z0-9_]*$", nm) and nm not in out + more:
                more.append(nm)
        out += more[:6]
    return out


def faulted(tokens, sep, kind, i, repl=None):
    t = list(tokens)
    if kind == "truncate":
        t = t[:i]
    elif kind == "delete":
        del t[i]
    elif kind == "duplicate":
        t.insert(i, t[i])
    elif kind == "replace":
        t[i] = repl
    return sep.join(t).replace(" \n ", "\n").replace("\n ", "\n")


class Timeout(Exception):
    pass


def _alarm(signum, frame):
    raise Timeout()


def guarded_parse(path):
    """(outcome, netlist): outcome in ok / raised:<Type> / hang."""
    s = core.sdn()
    return guarded_call(lambda: s.parse(path))


def guarded_call(fn):
    old = signal.signal(signal.SIGALRM, _alarm)
    signal.setitimer(signal.ITIMER_REAL, TIMEOUT_S)
    try:
        with core.quiet():
            n = fn()
        return "ok", n
    except Timeout:
        pass
    except Exception as ex:
        return "raised:" + type(ex).__name__, None
    finally:
        signal.setitimer(signal.ITIMER_REAL, 0)
        signal.signal(signal.SIGALRM, old)
    # wall clock said hang: confirm independently of machine load with a line budget
    count = [0]

    def tracer(frame, event, arg):
        if event == "line":
            count[0] += 1
            if count[0] > LINE_BUDGET:
                raise Timeout()
        return tracer

    sys.settrace(tracer)
    try:
        with core.quiet():
            n = fn()
        return "ok", n
    except Timeout:
        return "hang", None
    except Exception as ex:
        return "raised:" + type(ex).__name__, None
    finally:
        sys.settrace(None)


def probe():
    """fixed script whose observable behaviour must be the same before and after any parse."""
    s = core.sdn()
    out = []
    n = s.Netlist(name="probe")
    out.append(n.get(".NS"))
    lib = n.create_library(name="L")
    try:
        lib["EDIF.identifier"] = "1 illegal"  # legal under DEFAULT, illegal under the EDIF policy
        out.append("identifier-accepted")
    except ValueError:
        out.append("identifier-refused")
    d = lib.create_definition(name="d")
    d.create_port(name="p")
    try:
        d.create_port(name="P")["EDIF.identifier"] = "p"  # case-variant identifiers collide only under EDIF
        out.append("case-variant-accepted")
    except ValueError:
        out.append("case-variant-refused")
    out.append(s.namespace_manager.default)
    return tuple(out)


def structure(path):
    """order-insensitive structural summary of the netlist a good file parses to."""
    s = core.sdn()
    try:
        with core.quiet():
            n = s.parse(path)
    except Exception as ex:
        return ("raised", type(ex).__name__)
    out = []
    for lib in n.libraries:
        for d in lib.definitions:
            nets = sorted(sorted((type(p).__name__, getattr(getattr(p, "instance", None), "name", None),
                                  (p.inner_pin.port.name if hasattr(p, "inner_pin") else p.port.name)) for p in w.pins)
                          for c in d.cables for w in c.wires)
            out.append((lib.name, d.name, len(d.ports), len(d.cables), sorted(str(x.name) for x in d.children), nets))
    # what the file says about the netlist as a whole (name, comment lines, ...) belongs to this file alone
    meta = sorted((str(k), repr(v)) for k, v in n._data.items())
    return (sorted(out, key=repr), n.top_instance.reference.name if n.top_instance is not None and n.top_instance.reference is not None else None, meta)


def graph_text(fmt, bodies, order):
    """three modules a, b, c; bodies[k] = tuple of module names instanced by module k (cycles allowed)."""
    names = "abc"
    out = []
    for k in order:
        m = names[k]
        if fmt == "verilog":
            lines = ["module %s(x);" % m, " input x;"]
            for j, t in enumerate(bodies[k]):
                lines.append(" %s i%d(.x(x));" % (t, j))
            lines.append("endmodule")
        else:
            lines = [".model %s" % m, ".inputs x", ".outputs"]
            for j, t in enumerate(bodies[k]):
                lines.append(".subckt %s x=x" % t)
                lines.append(".cname i%d" % j)
            lines.append(".end")
        out.append("\n".join(lines))
    return "\n\n".join(out) + "\n"


def graph_worker(case):
    """every instantiation graph over three modules (<= 2 instances each, cycles and self-loops included) in every
    declaration order: the reader must terminate - return something well-formed or raise - and leave no residue."""
    _, fmt, bodies, order = case
    core.reset_world()
    s = core.sdn()
    ext = ".v" if fmt == "verilog" else ".eblif"
    path = os.path.join(core.scratch_dir(), "c15g_%d%s" % (os.getpid(), ext))
    with open(path, "w") as f:
        f.write(graph_text(fmt, bodies, order))
    before = core.mutable_globals_snapshot()
    outcome, n = guarded_parse(path)
    probs = []
    cyc = "cyclic" if _cyclic(bodies) else "acyclic"
    tag = "%s:hierarchy-graph:%s" % (fmt, cyc)
    if outcome == "hang":
        probs.append(("reader-hangs:" + tag, "bodies %r order %r" % (bodies, order)))
    elif outcome == "ok" and n is not None:
        bad = wf.wf_netlist(n, require_references=True)
        if bad:
            probs.append(("half-built-netlist-returned:%s:%s" % (bad[0][0], tag), "bodies %r order %r: %s" % (bodies, order, bad[0][1])))
    elif outcome.startswith("raised") and cyc == "acyclic":
        probs.append(("reader-rejected-valid-source:%s:%s" % (outcome, tag), "bodies %r order %r" % (bodies, order)))
    if core.mutable_globals_snapshot() != before:
        probs.append(("process-residue:" + tag, "bodies %r" % (bodies,)))
    return {"key": core.digest(case), "nontrivial": cyc == "cyclic", "outcome": outcome.split(":")[0], "problems": probs, "transitions": 1}


def _cyclic(bodies):
    names = "abc"
    seen = {}

    def dfs(k, stack):
        if k in stack:
            return True
        return any(dfs(names.index(t), stack | {k}) for t in bodies[k])

    return any(dfs(k, frozenset()) for k in range(3))


def file_fault_worker(case):
    """the input cannot even be opened or is not what its name says: must raise, no residue."""
    _, what, policy = case
    core.reset_world()
    s = core.sdn()
    s.namespace_manager.default = policy
    d = core.scratch_dir()
    import zipfile
    paths = {
        "missing.edf": os.path.join(d, "no_such_file_%d.edf" % os.getpid()),
        "missing.v": os.path.join(d, "no_such_file_%d.v" % os.getpid()),
        "missing.eblif": os.path.join(d, "no_such_file_%d.eblif" % os.getpid()),
        "directory.edf": os.path.join(d, "dir_%d.edf" % os.getpid()),
        "directory.v": os.path.join(d, "dir_%d.v" % os.getpid()),
        "empty.edf": os.path.join(d, "empty_%d.edf" % os.getpid()),
        "empty.v": os.path.join(d, "empty_%d.v" % os.getpid()),
        "empty.eblif": os.path.join(d, "empty_%d.eblif" % os.getpid()),
        "zip-without-member.edf": os.path.join(d, "nomember_%d.edf" % os.getpid()),
        "zip-without-member.v": os.path.join(d, "nomember_%d.v" % os.getpid()),
        "unknown-extension": os.path.join(d, "x_%d.xyz" % os.getpid()),
    }
    path = paths[what]
    if what.startswith("directory"):
        os.makedirs(path, exist_ok=True)
    elif what.startswith("empty") or what == "unknown-extension":
        open(path, "w").close()
    elif what.startswith("zip"):
        with zipfile.ZipFile(path, "w") as z:
            z.writestr("something_else.txt", "hello")
    ref_probe = probe()
    before = core.mutable_globals_snapshot()
    outcome, n = guarded_parse(path)
    probs = []
    tag = "file-fault:%s%s" % (what, "" if policy == "DEFAULT" else ":under-" + policy)
    if outcome == "hang":
        probs.append(("reader-hangs:" + tag, what))
    if outcome == "ok" and n is not None and not what.startswith("empty"):
        probs.append(("unreadable-input-accepted:" + tag, what))
    after = core.mutable_globals_snapshot()
    if after != before:
        diff = sorted(k for k in set(before) | set(after) if before.get(k) != after.get(k))
        probs.append(("process-residue-after-rejection:%s:%s" % (diff[0].split(":")[-1], tag), "%s: %s -> %s" % (diff[0], before.get(diff[0]), after.get(diff[0]))))
        if probe() != ref_probe:
            probs.append(("later-behaviour-differs:" + tag, "probe script differs from a fresh process"))
    if what.startswith("directory"):
        try:
            os.rmdir(path)
        except OSError:
            pass
    return {"key": core.digest(case), "nontrivial": outcome.startswith("raised"), "outcome": outcome.split(":")[0], "problems": probs, "transitions": 1}


def handle_worker(case):
    """the same text handed to a reader as an open handle (text / binary file, in-memory text / bytes), intact and cut
    in the middle: the reader terminates; when it returns a netlist that netlist is the one the file name gives."""
    _, which, hkind, cut = case[:4]
    switch = case[4] if len(case) > 4 else None   # the policy is changed between making the reader and running it
    import io
    core.reset_world()
    s = core.sdn()
    ext, text = bases()[which]
    if cut:
        text = text[: len(text) // 2]
    path = os.path.join(core.scratch_dir(), "c15h_%d%s" % (os.getpid(), ext))
    with open(path, "w") as f:
        f.write(text)
    from spydrnet.parsers.edif.parser import EdifParser
    from spydrnet.parsers.verilog.parser import VerilogParser
    from spydrnet.parsers.eblif.eblif_parser import EBLIFParser
    cls = {".edf": EdifParser, ".v": VerilogParser, ".eblif": EBLIFParser}[ext]
    probs = []
    tag = "handle:%s:%s%s" % (which.split(":")[0], hkind, ":cut" if cut else "")
    def shape(nl):
        c = canon.canon_netlist(nl)
        c.pop("lib_order", None)
        for L in c["libs"].values():
            L.pop("order", None)    # the order of inferred black boxes inside their library is not specified
        return c
    ref_outcome, ref = guarded_parse(path)
    ref_c = shape(ref) if ref is not None else None

    import tempfile

    def _tmp(f):
        f.write(text.encode())
        f.seek(0)
        return f

    def go():
        h = {"text-file": lambda: open(path, "r"), "binary-file": lambda: open(path, "rb"),
             "StringIO": lambda: io.StringIO(text), "BytesIO": lambda: io.BytesIO(text.encode()),
             # the standard library's temporary files (binary by default; neither is an io.BufferedIOBase subclass)
             "NamedTemporaryFile": lambda: _tmp(tempfile.NamedTemporaryFile()),
             "SpooledTemporaryFile": lambda: _tmp(tempfile.SpooledTemporaryFile(max_size=10 ** 7))}[hkind]()
        try:
            p = cls.from_file_handle(h)
            if switch:
                s.namespace_manager.default = switch
            p.parse()
            return p.netlist
        finally:
            try:
                h.close()
            except Exception:
                pass
    if switch:
        s.namespace_manager.default = "EDIF" if switch == "DEFAULT" else "DEFAULT"   # in force when the reader is made
        tag += ":policy-switched-to-%s-before-the-run" % switch
    outcome, n = guarded_call(go)
    if switch and outcome != "hang" and s.namespace_manager.default != switch:
        probs.append(("process-residue-after-%s:default:%s" % ("rejection" if outcome.startswith("raised") else "parse", tag),
                      "the policy in force when parse() was called was %s, afterwards it is %s" % (switch, s.namespace_manager.default)))
    if outcome == "hang":
        probs.append(("reader-hangs:" + tag, which))
    elif outcome == "ok" and n is not None:
        if ref_c is None:
            probs.append(("handle-accepted-what-the-file-name-rejects:" + tag, ref_outcome))
        elif canon.diff(ref_c, shape(n)):
            probs.append(("handle-parse-differs:" + tag, str(canon.diff(ref_c, shape(n)))[:300]))
        for c, d in wf.wf_netlist(n) + wf.shared_metadata(n):
            probs.append(("malformed-netlist-returned:%s:%s" % (c, tag), d))
    return {"key": core.digest(case), "nontrivial": True, "outcome": outcome.split(":")[0], "problems": probs, "transitions": 2}


def worker(case):
    if case[0] == "handle":
        return handle_worker(case)
    if case[0] == "graph":
        return graph_worker(case)
    if case[0] == "file-fault":
        return file_fault_worker(case)
    fmt, which, kind, lo, hi, repl = case[:6]
    policy = case[6] if len(case) > 6 else "DEFAULT"
    core.reset_world()
    s = core.sdn()
    s.namespace_manager.default = policy  # the policy in force when the reader is called
    ext, text = bases()[which]
    tokens, sep = tokenize(ext, text)
    path = os.path.join(core.scratch_dir(), "c15_%d%s" % (os.getpid(), ext))
    probs = []
    n_run = 0
    n_rejected = 0
    ref_probe = probe()
    good = os.path.join(core.scratch_dir(), "c15_good_%d%s" % (os.getpid(), ext))
    # the later-parse probe reads a *different* good file of the same format that shares net and instance
    # names with the base (residue such as pending merges would be invisible on the base itself)
    others = [k for k in sorted(bases()) if k.split(":")[0] == fmt and k != which]
    with open(good, "w") as f:
        f.write(bases()[others[0]][1] if others else text)
    ref_parse = structure(good)
    before = core.mutable_globals_snapshot()
    if isinstance(repl, str) and repl.startswith("@decl"):
        repl = declared_names(ext, tokens)[int(repl[5:])]
        if ext == ".v" and repl.startswith("\\"):
            repl += " "
    for i in range(lo, min(hi, len(tokens) + (1 if kind == "truncate" else 0))):
        if kind != "truncate" and i >= len(tokens):
            break
        if kind == "replace" and tokens[i] == repl:
            continue
        body = faulted(tokens, sep, kind, i, repl)
        with open(path, "w") as f:
            f.write(body)
        outcome, n = guarded_parse(path)
        n_run += 1
        rname = "declared-name" if str(case[5]).startswith("@decl") else (repl or "nothing")
        tag = "%s:%s%s" % (fmt, kind if kind != "replace" else "replace-by-" + rname, "" if policy == "DEFAULT" else ":under-" + policy)
        if outcome == "hang":
            probs.append(("reader-hangs:" + tag, "token %d (%r)" % (i, tokens[min(i, len(tokens) - 1)])))
        elif outcome == "ok":
            bad = wf.wf_netlist(n, require_references=True) if n is not None else [("no-netlist", "parse returned None")]
            if bad:
                probs.append(("half-built-netlist-returned:%s:%s" % (bad[0][0], tag), "token %d (%r): %s" % (i, tokens[min(i, len(tokens) - 1)], bad[0][1])))
            # dangling EDIF references must be rejected
            if fmt == "edif" and kind == "replace" and repl == "zz_undeclared" and i > 0 and \
                    tokens[i - 1].lower() in ("cellref", "libraryref", "portref", "instanceref", "viewref", "member"):
                probs.append(("dangling-reference-accepted:%s:%s" % (tokens[i - 1].lower(), tag), "token %d" % i))
            if fmt == "edif" and kind == "replace" and isinstance(case[5], str) and case[5].startswith("@decl"):
                # a reference re-targeted to another *declared* name: accepted by the reader although an independent
                # reading of the same text finds the reference dangling?
                from vlib import sexpr
                try:
                    sexpr.interpret(sexpr.parse(body))
                except KeyError as ex:
                    probs.append(("dangling-reference-accepted:retargeted:" + tag, "token %d (%r -> %r): independent reading fails to resolve %s" % (i, tokens[i], repl, ex)))
                except Exception:
                    pass
            if fmt == "edif" and kind == "replace" and repl == "pageSize" and tokens[i - 1] == "(" and tokens[i].lower() in (
                    "port", "instance", "net", "cell", "library", "view", "interface", "contents", "joined", "portref"):
                probs.append(("unsupported-construct-accepted:" + tag, "(%s ...) replaced by (pageSize ...) at token %d" % (tokens[i], i)))
        else:
            n_rejected += 1
        # a later parse of a good file behaves as in a fresh process
        now_parse = structure(good)
        if now_parse != ref_parse:
            probs.append(("later-parse-differs:%s" % tag, "after fault at token %d (outcome %s) the good file of the same format parses differently" % (i, outcome)))
            ref_again = structure(good)
            if ref_again != ref_parse:
                probs.append(("residue-persists:%s" % tag, "and once more"))
        after = core.mutable_globals_snapshot()
        if after != before:
            diff = sorted(k for k in set(before) | set(after) if before.get(k) != after.get(k))
            probs.append(("process-residue-after-%s:%s:%s" % ("rejection" if outcome.startswith("raised") else "parse", diff[0].split(":")[-1], tag),
                          "%s: %s -> %s (token %d, outcome %s)" % (diff[0], before.get(diff[0]), after.get(diff[0]), i, outcome)))
            pr = probe()
            if pr != ref_probe:
                probs.append(("later-behaviour-differs:%s" % tag, "probe script: fresh %r, now %r" % (ref_probe, pr)))
            core.reset_world()  # one residue must not mask the next fault
            s.namespace_manager.default = policy
            before = core.mutable_globals_snapshot()
    return {"key": core.digest(case), "nontrivial": n_rejected > 0, "outcome": kind, "problems": list(dict.fromkeys(probs)),
            "transitions": n_run}


engine_b.WORKERS[ID] = worker


def cases(tier):
    out = []
    step = 40
    for which, (ext, text) in bases().items():
        fmt = which.split(":")[0]
        if tier == "quick" and which in ("edif:E1",):
            continue
        ntok = len(tokenize(ext, text)[0])
        for lo in range(0, ntok + 1, step):
            out.append((fmt, which, "truncate", lo, lo + step, None))
            out.append((fmt, which, "delete", lo, lo + step, None))
            out.append((fmt, which, "duplicate", lo, lo + step, None))
            for r in REPL + ["@decl%d" % k for k in range(len(declared_names(ext, tokenize(ext, text)[0])))]:
                out.append((fmt, which, "replace", lo, lo + step, r))
    # the unfaulted files themselves (successful parses restore the policy they switched)
    for which in bases():
        out.append((which.split(":")[0], which, "truncate", 10 ** 6, 10 ** 6 + 1, None))
    import itertools
    options = [()] + [(x,) for x in "abc"] + [tuple(p) for p in itertools.combinations_with_replacement("abc", 2)]
    for fmt in ("verilog", "eblif"):
        for bodies in itertools.product(options, repeat=3):
            for order in (itertools.permutations(range(3)) if tier == "thorough" else [(0, 1, 2), (2, 1, 0), (1, 2, 0)]):
                out.append(("graph", fmt, list(bodies), list(order)))
    for what in ("missing.edf", "missing.v", "missing.eblif", "directory.edf", "directory.v", "empty.edf", "empty.v",
                 "empty.eblif", "zip-without-member.edf", "zip-without-member.v", "unknown-extension"):
        for policy in ("DEFAULT", "EDIF"):
            out.append(("file-fault", what, policy))
    for which in bases():
        for hkind in ("text-file", "binary-file", "StringIO", "BytesIO", "NamedTemporaryFile", "SpooledTemporaryFile"):
            for cut in (False, True):
                out.append(("handle", which, hkind, cut))
                if hkind in ("text-file", "StringIO"):
                    out.append(("handle", which, hkind, cut, "EDIF"))
                    out.append(("handle", which, hkind, cut, "DEFAULT"))
    # the same faults with the EDIF policy in force before the call (the Verilog reader switches to DEFAULT)
    for c in list(out):
        if c[0] in ("verilog", "eblif") and len(c) == 6 and (tier == "thorough" or c[2] in ("truncate", "delete")):
            out.append(c + ("EDIF",))
    return out


def run(tier, seed):
    cov = core.Coverage(
        "fault enumeration: for every base file every single token-level corruption (truncation at each boundary, "
        "deletion, duplication, replacement by each of ( ) undeclared-name unsupported-keyword number nothing) is "
        "parsed by the real reader under a wall-clock alarm + line budget; it must raise or return a well-formed "
        "netlist, dangling references / unsupported constructs must raise, and the process-wide state must equal the "
        "pre-call snapshot; evaluations = faulted parses; non-trivial = fault blocks in which at least one input "
        "was rejected")
    found = {}
    deadline = time.time() + (900 if tier == "quick" else 6000)
    cs = cases(tier)
    k = seed % 7
    engine_b.run_cases(ID, cs[k:] + cs[:k], cov, found, deadline, level="faults/" + tier)
    engine_b.finish(cov)
    cov["evaluations"] = cov["transitions"]
    return cov, found


def replay(case):
    return engine_b.replay_case(case)
