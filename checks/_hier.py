"""Shared by C08/C09: build a design of F_hier, elaborate, transform, elaborate again."""
from vlib import core, design, elab, wf
from vlib.world import World, snapshot


def prepare(case, policy=None):
    desc, order = case[0], case[1]
    desc = (desc[0], tuple(desc[1]), desc[2])
    core.reset_world()
    core.set_order(order)
    if policy is not None:
        core.sdn().namespace_manager.default = policy
    ad = design.materialize(desc)
    # leaf instances carry a property so that "same data" is observable
    for lib in ad["libs"]:
        for d in lib["defs"]:
            for x in d["insts"]:
                if x["ref"][1] in design.LEAVES:
                    x["props"] = {"INIT": "8'h%s" % x["name"], "k": [1, {"z": x["name"]}]}
    if len(case) > 2 and case[2] == "late-ports":
        ad["build"] = "late-ports"
    n = design.build_netlist(ad)
    if len(case) > 2 and case[2] == "after-refused-edits":
        refused_prelude(n)
    return ad, n


def refused_prelude(n):
    """Not from the initial state: a battery of editing calls that must all be refused (a bulk call one of whose
    members is foreign - listed after the legal ones -, a duplicate name, an element that lives elsewhere, a pin
    that is already connected, a re-point to a cell of another shape).  Returns how many were refused; the design
    is what it was before - that is C14's business, here the property's own oracle simply runs on what is there."""
    s = core.sdn()
    fx = s.Instance(name="zz_foreign")
    fp = s.Port(name="zz_foreign")
    fpin = fp.create_pin()
    fc = s.Cable(name="zz_foreign")
    fw = fc.create_wire()
    fw.connect_pin(fpin)
    wide = s.Definition(name="zz_wide")
    wide.create_port(name="only", pins=5)
    calls = []
    defs = [d for lib in n.libraries for d in lib.definitions]
    for d in defs:
        kids, ports, cables = list(d.children), list(d.ports), list(d.cables)
        if kids:
            calls.append(lambda d=d, x=kids[0]: d.remove_children_from([x, fx]))
            calls.append(lambda d=d, x=kids[0]: d.create_child(name=x.name, reference=x.reference))
            calls.append(lambda x=kids[0]: setattr(x, "reference", wide))
            other = next((o for o in defs if o is not d and o.children), None)
            if other is not None:
                calls.append(lambda d=d, o=other: d.add_child(list(o.children)[0]))
        if ports:
            calls.append(lambda d=d, p=ports[0]: d.remove_ports_from([p, fp]))
            calls.append(lambda d=d, p=ports[0]: d.create_port(name=p.name, pins=1))
            if ports[0].pins:
                calls.append(lambda p=ports[0]: p.remove_pins_from([p.pins[0], fpin]))
        if cables:
            calls.append(lambda d=d, c=cables[0]: d.remove_cables_from([c, fc]))
            calls.append(lambda d=d, c=cables[0]: d.create_cable(name=c.name, wires=1))
            if cables[0].wires:
                calls.append(lambda c=cables[0]: c.remove_wires_from([c.wires[0], fw]))
            for c in cables:
                for w in c.wires:
                    if w.pins:
                        calls.append(lambda w=w: w.disconnect_pins_from([w.pins[0], fpin]))
                        calls.append(lambda w=w: fw.connect_pin(w.pins[0]))
                        break
                else:
                    continue
                break
    refused = 0
    for call in calls:
        try:
            call()
        except Exception:
            refused += 1
    return refused, len(calls)


def key_of(case, n):
    # canonical input = identity-free snapshot of the built netlist
    w = World()
    w.add(n)
    return core.digest((snapshot(w, hidden=False), case[1]))


def crosses_boundary(e):
    """non-trivial: some electrical class spans more than one level of hierarchy."""
    for cls in e.wire_classes().values():
        if len(set(len(p) for p, _ in cls)) > 1:
            return True
    return False


def sharing(e):
    seen = {}
    for p in e.instances:
        if len(p) > 1 and p[-1].reference is not None and not elab.is_leaf_def(p[-1].reference):
            seen[id(p[-1].reference)] = seen.get(id(p[-1].reference), 0) + 1
    return any(v > 1 for v in seen.values())


def fmt_part(part):
    return sorted(sorted(map(str, g)) for g in part)
