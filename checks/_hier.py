"""Shared by C08/C09: build a design of F_hier, elaborate, transform, elaborate again."""
from vlib import core, design, elab, wf
from vlib.world import World, snapshot


def prepare(case, policy=None):
    desc, order = case[0], case[1]
    desc = (desc[0], tuple(desc[1]), desc[2])
    core.reset_world()
    core.set_order(order)
    if policy is not None:
        core.sdn().namespace_manager.default = policy
    ad = design.materialize(desc)
    # leaf instances carry a property so that "same data" is observable
    for lib in ad["libs"]:
        for d in lib["defs"]:
            for x in d["insts"]:
                if x["ref"][1] in design.LEAVES:
                    x["props"] = {"INIT": "8'h%s" % x["name"], "k": [1, {"z": x["name"]}]}
    if len(case) > 2 and case[2] == "late-ports":
        ad["build"] = "late-ports"
    n = design.build_netlist(ad)
    return ad, n


def key_of(case, n):
    # canonical input = identity-free snapshot of the built netlist
    w = World()
    w.add(n)
    return core.digest((snapshot(w, hidden=False), case[1]))


def crosses_boundary(e):
    """non-trivial: some electrical class spans more than one level of hierarchy."""
    for cls in e.wire_classes().values():
        if len(set(len(p) for p, _ in cls)) > 1:
            return True
    return False


def sharing(e):
    seen = {}
    for p in e.instances:
        if len(p) > 1 and p[-1].reference is not None and not elab.is_leaf_def(p[-1].reference):
            seen[id(p[-1].reference)] = seen.get(id(p[-1].reference), 0) + 1
    return any(v > 1 for v in seen.values())


def fmt_part(part):
    return sorted(sorted(map(str, g)) for g in part)
