"""C05 - the EDIF reader builds exactly the design the file describes (Engine B, independent writer)."""
import os
import time

from vlib import core, design, engine_b, wf, canon, edif_writer, fdesigns
from checks import _hier

ID = "C05"
LEVEL = "model_checking"
ASSUMPTIONS = [
    "texts come from vlib/edif_writer.py (independent of the repository's composer); input space = base designs x "
    "rendering options (reference case, rename style, libraryRef, comments) x every permutation and non-empty subset "
    "of the bits of a bus net, plus every design of F_hier K1/K2/K8 rendered with default options",
]


def parse_text(text, suffix=".edf"):
    s = core.sdn()
    path = os.path.join(core.scratch_dir(), "in_%d%s" % (os.getpid(), suffix))
    with open(path, "w") as f:
        f.write(text)
    with core.quiet():
        return s.parse(path)


def worker(case):
    kind = case[0]
    core.reset_world()
    core.set_order(case[-1])
    probs = []
    if kind == "bundled":
        return bundled(case)
    if kind == "base":
        _, base, opts, busr, order = case
        ad = fdesigns.BASES[base]()
        bus = {}
        if busr is not None:
            cell, net, perm, keep = busr
            bus[(cell, net)] = (tuple(perm), tuple(keep))
        opts = dict(opts)
        if opts.pop("long_ids", False):
            ad = fdesigns.long_identifiers(ad)
        if opts.pop("dup_instances", False):
            ad, ad_read = fdesigns.dup_instances(ad)
        else:
            ad_read = ad
        text = edif_writer.render(ad, bus=bus, **opts)
        exp = edif_writer.expected(ad_read, bus=bus)
        tag = "%s:%s" % (base, "bus" if busr is not None else "opts")
        feature = []
        if opts["refcase"] != "decl":
            feature.append("refcase=" + opts["refcase"])
        if opts["design_case"] != "decl":
            feature.append("design-case=" + opts["design_case"])
        if opts["libref_same"] == "omitted":
            feature.append("libref-omitted")
        if busr is not None and (list(busr[2]) != sorted(busr[2]) or len(busr[3]) < len(busr[2])):
            feature.append("bus-" + ("gaps" if len(busr[3]) < len(busr[2]) else "permuted"))
    else:
        _, desc, order = case
        ad = design.materialize((desc[0], tuple(desc[1]), desc[2]))
        for lib in ad["libs"]:
            for d in lib["defs"]:
                for net in d["nets"]:
                    if net["name"] == "bus":
                        net["array"] = True
        if desc[2] == "two-libraries":
            ad["libs"].reverse()  # EDIF wants a library declared before it is referenced
        text = edif_writer.render(ad)
        exp = edif_writer.expected(ad)
        tag = desc[0]
        feature = []
    key = core.digest(text)
    if kind == "base" and opts.get("comments") and not opts.get("rich") and busr is None:
        # not the first file of the process: two rejected inputs came before (cut in the middle, and a reference to
        # a cell that does not exist) - whatever a rejected parse leaves behind must not reach this one
        for bad in (text[: len(text) // 2], text.replace("(cellRef ", "(cellRef zz_nowhere_", 1)):
            try:
                parse_text(bad)
                probs.append(("rejected-input-accepted:" + tag, "a cut / dangling text was accepted"))
            except Exception:
                pass
        feature.append("after-rejected-input")
    try:
        n = parse_text(text)
    except Exception as ex:
        probs.append(("reader-rejected-valid-file:%s:%s:%s" % (type(ex).__name__, tag, "+".join(feature)), repr(ex)[:300]))
        return {"key": key, "nontrivial": True, "outcome": "raised", "problems": probs, "transitions": 1}
    got = canon.canon_netlist(n, ids=True)
    # the statement fixes a port's direction and array size, not its base index
    for c in (exp, got):
        for L in c["libs"].values():
            for D in L["defs"].values():
                D["ports"] = [r[:4] + r[5:] for r in D["ports"]]
    # relative order of libraries/cells is part of what the text declares
    d = canon.diff(exp, got)
    if d:
        probs.append(("parsed-structure-differs:%s:%s:%s" % (d[0], tag, "+".join(feature)), d[1][:400]))
    t = n.top_instance
    if ad.get("top") and (t is None or t.reference is None or (t.reference.library.name, t.reference.name) != tuple(ad["top"])):
        probs.append(("wrong-top:%s:%s" % (tag, "+".join(feature)), "design selects %s" % (ad["top"],)))
    for c, dd in wf.wf_netlist(n) + wf.shared_metadata(n):
        probs.append(("malformed-netlist:%s:%s" % (c, tag), dd))
    return {"key": key, "nontrivial": bool(feature) or kind != "base", "outcome": "ok", "problems": probs, "transitions": 1}


def bundled(case):
    """a bundled example .edf: the reader's result vs an independent s-expression reading."""
    from vlib import sexpr
    _, fname, order = case
    path = os.path.join(core.REPO, "example_netlists", "EDIF_netlists", fname)
    s = core.sdn()
    probs = []
    text = sexpr.read_text(path)
    exp = sexpr.interpret(sexpr.parse(text))
    amb = exp.pop("ambiguous")
    key = core.digest((fname, order))
    if amb:
        return {"key": key, "nontrivial": False, "outcome": "skipped-ambiguous", "problems": [], "transitions": 0}
    try:
        with core.quiet():
            n = s.parse(path)
    except Exception as ex:
        return {"key": key, "nontrivial": True, "outcome": "raised", "transitions": 1,
                "problems": [("reader-rejected-bundled-file:%s:%s" % (type(ex).__name__, fname), repr(ex)[:300])]}
    got = canon.canon_netlist(n, ids=True)
    for L in got["libs"].values():
        for D in L["defs"].values():
            D["ports"] = [r[:4] + r[5:] for r in D["ports"]]
    d = canon.diff(exp, got)
    if d:
        probs.append(("parsed-structure-differs:%s:bundled:%s" % (d[0], fname), d[1][:400]))
    for c, dd in wf.wf_netlist(n) + wf.shared_metadata(n):
        probs.append(("malformed-netlist:%s:bundled:%s" % (c, fname), dd))
    return {"key": key, "nontrivial": True, "outcome": "ok", "problems": probs, "transitions": 1}


def bundled_files(tier, ext=".edf.zip", sub="EDIF_netlists"):
    d = os.path.join(core.REPO, "example_netlists", sub)
    cap = 9000 if tier == "quick" else 120000
    fs = [(os.path.getsize(os.path.join(d, f)), f) for f in os.listdir(d) if f.endswith(ext)]
    return [f for sz, f in sorted(fs) if 0 < sz <= cap]


engine_b.WORKERS[ID] = worker


def cases(tier):
    out = []
    for base in fdesigns.BASES:
        for opts in fdesigns.edif_option_product(tier):
            for order in core.ORDER_VARIANTS:
                out.append(("base", base, opts, None, order))
    # bus nets in every bit order with every subset of bits present
    dflt = {"refcase": "decl", "always_rename": False, "libref_same": "present", "comments": False, "design_case": "decl"}
    for cell, net, width in (("T", "bb", 3), ("T", "cc", 3)):
        for perm, keep in fdesigns.bus_renderings(width):
            out.append(("base", "E1", dflt, (cell, net, list(perm), list(keep)), "asc"))
            if tier == "thorough":
                out.append(("base", "E1", dict(dflt, refcase="upper", always_rename=True), (cell, net, list(perm), list(keep)), "desc"))
    for desc in design.family_hier(tier, variants=("plain", "two-libraries")):
        if desc[0] in ("K1-chain2", "K8-bus") or (tier == "thorough" and desc[0] in ("K2-shared", "K5-chain3")):
            out.append(("hier", desc, "asc"))
    for f in bundled_files(tier):
        out.append(("bundled", f, "asc"))
    return out


def run(tier, seed):
    cov = core.Coverage(
        "Engine B: EDIF texts rendered by an independent writer from abstract designs - base designs x rendering "
        "options, every permutation x non-empty subset of the bits of each bus net, and the F_hier designs - are "
        "parsed by the real reader; the canonical name-keyed structure (identifiers and original names included) must "
        "equal the abstract design; states = distinct texts; non-trivial = texts exercising a non-default rendering")
    found = {}
    deadline = time.time() + (900 if tier == "quick" else 6000)
    cs = cases(tier)
    k = seed % 7
    engine_b.run_cases(ID, cs[k:] + cs[:k], cov, found, deadline, level="edif-texts/" + tier)
    engine_b.finish(cov)
    return cov, found


def replay(case):
    return engine_b.replay_case(case)
