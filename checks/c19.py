"""C19 - listeners are told of every structural change before it happens (Engine A + shadow)."""
import time

from vlib import core, engine_a, engine_b, scenarios
from vlib.engine_a import Oracle
from vlib.world import snapshot

ID = "C19"
LEVEL = "model_checking"
ASSUMPTIONS = [
    "the shadow is updated only from notifications; it may read the real pre-state at notification time "
    "(needed to re-key connections by (port position, pin position) on a re-point), as the framework documents",
    "notifications are idempotent facts: a redundant second announcement of the same fact is not a violation",
    "order inside containers is not mirrored (notifications carry no position)",
]


def pinkey(pin):
    s = core.sdn()
    if isinstance(pin, s.OuterPin):
        return ("O", id(pin.instance), id(pin.inner_pin))
    return ("I", id(pin))


def make_listener(problems, passive=False):
    s = core.sdn()
    from spydrnet.callback.callback_listener import CallbackListener

    class Shadow(CallbackListener):
        def __init__(self):
            self.members = {}   # (attr, id(container)) -> set(id(child))
            self.conn = {}      # id(wire) -> set(pinkey)
            self.ref = {}       # id(instance) -> id(definition) | None
            self.top = {}       # id(netlist) -> id(instance) | None
            self.data = {}      # id(element) -> {key: frozen value}
            self.count = 0
            super().__init__()

        # -- helpers
        def _add(self, attr, cont, child, backattr):
            self.count += 1
            if not passive and id(child) in self.members.get((attr, id(cont)), ()):
                problems.append(("announcement-without-change:add:" + attr, "an add was announced for a child the mirror already holds"))
            if not passive:
                if any(x is child for x in getattr(cont, attr)) or getattr(child, backattr) is cont:
                    problems.append(("announced-after-effect:add:" + attr, "child already attached when add was announced"))
            self.members.setdefault((attr, id(cont)), set()).add(id(child))

        def _rem(self, attr, cont, child, backattr):
            self.count += 1
            if not passive and id(child) not in self.members.get((attr, id(cont)), ()):
                problems.append(("announcement-without-change:remove:" + attr, "a removal was announced for a child the mirror does not hold (announced twice?)"))
            if not passive and id(child) in self.members.get((attr, id(cont)), ()):
                if not any(x is child for x in getattr(cont, attr)) or getattr(child, backattr) is not cont:
                    problems.append(("announced-after-effect:remove:" + attr, "child already detached when removal was announced"))
            self.members.setdefault((attr, id(cont)), set()).discard(id(child))

        # -- creation
        def _created(self, e):
            self.count += 1
            self.data.setdefault(id(e), {})

        create_netlist = create_library = create_definition = create_port = create_cable = create_instance = _created

        # -- containment
        def netlist_add_library(self, n, l): self._add("libraries", n, l, "netlist")
        def netlist_remove_library(self, n, l): self._rem("libraries", n, l, "netlist")
        def library_add_definition(self, l, d): self._add("definitions", l, d, "library")
        def library_remove_definition(self, l, d): self._rem("definitions", l, d, "library")
        def definition_add_port(self, d, p): self._add("ports", d, p, "definition")
        def definition_remove_port(self, d, p): self._rem("ports", d, p, "definition")
        def definition_add_cable(self, d, c): self._add("cables", d, c, "definition")
        def definition_remove_cable(self, d, c): self._rem("cables", d, c, "definition")
        def definition_add_child(self, d, x): self._add("children", d, x, "parent")
        def definition_remove_child(self, d, x): self._rem("children", d, x, "parent")
        def port_add_pin(self, p, i): self._add("pins", p, i, "port")
        def port_remove_pin(self, p, i): self._rem("pins", p, i, "port")
        def cable_add_wire(self, c, w): self._add("wires", c, w, "cable")
        def cable_remove_wire(self, c, w): self._rem("wires", c, w, "cable")

        # -- connections
        def _stored(self, pin):
            if isinstance(pin, s.OuterPin) and pin.instance is not None and pin.inner_pin is not None:
                return pin.instance.pins.get(pin.inner_pin, pin)
            return pin

        def wire_connect_pin(self, w, pin):
            self.count += 1
            k = pinkey(pin)
            if not passive and k in self.conn.get(id(w), ()):
                problems.append(("announcement-without-change:connect", "a connection was announced that the mirror already holds"))
            if not passive and k not in self.conn.get(id(w), ()):
                sp = self._stored(pin)
                if sp.wire is w or any(x is sp for x in w.pins):
                    problems.append(("announced-after-effect:connect", "pin already on the wire when the connection was announced"))
            self.conn.setdefault(id(w), set()).add(k)

        def wire_disconnect_pin(self, w, pin):
            self.count += 1
            k = pinkey(pin)
            if not passive and k in self.conn.get(id(w), ()):
                sp = self._stored(pin)
                if sp.wire is not w or not any(x is sp for x in w.pins):
                    problems.append(("announced-after-effect:disconnect", "pin already (partly) off the wire when the disconnection was announced"))
            self.conn.setdefault(id(w), set()).discard(k)

        # -- references / top
        def instance_reference(self, x, ref):
            self.count += 1
            old = x.reference
            if not passive and ref is not old:
                # nothing of the re-point may be visible yet: the instance still belongs to the old definition's
                # reference set (and to no other), its outer pins still mirror the old definition
                mirror = self.ref.get(id(x))
                if mirror == (id(old) if old is not None else None):
                    if old is not None and not any(y is x for y in old.references):
                        problems.append(("announced-after-effect:reference", "instance already out of the old definition's reference set when the re-point was announced"))
                    if ref is not None and any(y is x for y in ref.references):
                        problems.append(("announced-after-effect:reference", "instance already in the new definition's reference set when the re-point was announced"))
                    if old is not None and sorted(id(op.inner_pin) for op in x.pins) != sorted(id(ip) for port in old.ports for ip in port.pins):
                        problems.append(("announced-after-effect:reference", "outer pins already re-keyed when the re-point was announced"))
            if old is not None and ref is not None and old is not ref:
                for cp, np in zip(old.ports, ref.ports):
                    for a, b in zip(cp.pins, np.pins):
                        ka, kb = ("O", id(x), id(a)), ("O", id(x), id(b))
                        for wid, pins in self.conn.items():
                            if ka in pins:
                                pins.discard(ka)
                                pins.add(kb)
            self.ref[id(x)] = id(ref) if ref is not None else None

        def netlist_top_instance(self, n, x):
            self.count += 1
            self.top[id(n)] = id(x) if x is not None else None

        # -- data
        def dictionary_set(self, e, key, value):
            self.count += 1
            self.data.setdefault(id(e), {})[key] = core.freeze(value)

        def dictionary_delete(self, e, key):
            self.count += 1
            self.data.setdefault(id(e), {}).pop(key, None)

        def dictionary_pop(self, e, key):
            self.count += 1
            self.data.setdefault(id(e), {}).pop(key, None)

    return Shadow()


_LISTS = {"N": (("libraries",),), "L": (("definitions",),), "D": (("ports",), ("cables",), ("children",)),
          "P": (("pins",),), "C": (("wires",),)}


def compare(w, sh):
    """Shadow (driven only by notifications) vs the real structure, through the public API."""
    bad = []
    w.discover()
    refsets = {}
    for xid, did in sh.ref.items():
        if did is not None:
            refsets.setdefault(did, set()).add(xid)
    for i in range(len(w)):
        o, k = w[i], w.kind[i]
        for (attr,) in _LISTS.get(k, ()):
            real = set(id(x) for x in getattr(o, attr))
            mine = sh.members.get((attr, id(o)), set())
            if real != mine:
                bad.append(("mirror-differs:%s.%s" % (k, attr), "%s%d.%s: real has %d, mirror has %d members" % (k, i, attr, len(real), len(mine))))
        if k == "W":
            real = set(pinkey(p) for p in o.pins)
            mine = sh.conn.get(id(o), set())
            if real != mine:
                bad.append(("mirror-differs:connections", "W%d: real pins %d, mirror %d (only-real %d, only-mirror %d)"
                            % (i, len(real), len(mine), len(real - mine), len(mine - real))))
        if k == "X":
            real = id(o.reference) if o.reference is not None else None
            if sh.ref.get(id(o)) != real:
                bad.append(("mirror-differs:reference", "X%d reference" % i))
        if k == "D":
            real = set(id(x) for x in o.references)
            if refsets.get(id(o), set()) != real:
                bad.append(("mirror-differs:reference-set", "D%d: real references %d, mirror %d" % (i, len(real), len(refsets.get(id(o), ())))))
        if k == "N":
            real = id(o.top_instance) if o.top_instance is not None else None
            if sh.top.get(id(o)) != real:
                bad.append(("mirror-differs:top-instance", "N%d top instance" % i))
        if k in "NLDPCX":
            real = {kk: core.freeze(v) for kk, v in o.data.items()}
            if sh.data.get(id(o), {}) != real:
                bad.append(("mirror-differs:data", "%s%d data: real %s mirror %s" % (k, i, sorted(real), sorted(sh.data.get(id(o), {})))))
    return bad


class C19Oracle(Oracle):
    nlisteners = 1

    def before_seed(self, scn):
        self.problems = []
        self.shadow = make_listener(self.problems)
        self.extra = [make_listener([], passive=True) for _ in range(self.nlisteners - 1)]

    def before_event(self, w, ev):
        del self.problems[:]

    def state(self, w):
        return compare(w, self.shadow)

    def pre(self, w, ev):
        return self.shadow.count

    def step(self, w, ev, outcome, token):
        bad = list(dict.fromkeys(self.problems))
        self.notified = self.shadow.count - token
        # (d) the API behaves the same with and without listeners (a call during which no listener was
        # invoked cannot have been influenced by one: skipped)
        if self.notified == 0 and outcome[0] == "raised":
            return bad
        dig = core.digest(snapshot(w))
        self.stale, self.digest = True, dig
        self.end(w)
        plain = engine_a.build(self.scn, self.order, self.hist)
        out2 = engine_a.apply_event(plain, engine_a.ops.build_ops(), ev)
        dig2 = core.digest(snapshot(plain))
        if out2 != outcome or dig2 != dig:
            bad.append(("listeners-change-behaviour", "%s: with listeners %s/%s, without %s/%s" % (ev[0], outcome, dig, out2, dig2)))
        return bad

    def nontrivial(self, w, ev, outcome):
        return getattr(self, "notified", 0) > 0

    def end(self, w):
        for l in [self.shadow] + self.extra:
            try:
                l.deregister_all_listeners()
            except Exception:
                pass
        self.extra = []


class C19Oracle2(C19Oracle):
    nlisteners = 2


engine_a.ORACLES[ID] = C19Oracle
engine_a.ORACLES[ID + "x2"] = C19Oracle2


# ------------------------------------------------------------------ partial listeners (Engine B form)
def hook_names():
    from spydrnet.callback.callback_listener import CallbackListener
    return sorted(n[len("register_"):] for n in dir(CallbackListener)
                  if n.startswith("register_") and n != "register_all_listeners")


class Veto(Exception):
    pass


def make_partial(hooks, log, veto=None):
    """a listener class overriding exactly `hooks`; each call is logged as (hook, raw args).  veto: a dict
    {"armed": bool}; while armed the first call raises Veto (a listener refusing the announced change)."""
    from spydrnet.callback.callback_listener import CallbackListener

    def mk(h):
        def f(self, *a):
            log.append((h, a))
            if veto is not None and veto.get("armed"):
                veto["armed"] = False
                raise Veto(h)
        f.__name__ = h
        return f
    return type("Partial", (CallbackListener,), {h: mk(h) for h in hooks})


def _descr(w, log, reachable):
    """log entries with element arguments replaced by their pool index; objects the pool cannot reach
    (index >= reachable) are described by type and name, not by an index that depends on what was logged."""
    out = []
    for h, args in log:
        row = [h]
        for a in args:
            if id(a) in w.index and w.index[id(a)] < reachable:
                row.append(("#", w.index[id(a)]))
            elif id(a) in w.index:
                row.append(("unreachable", type(a).__name__, getattr(a, "name", None)))
            elif type(a).__module__.startswith("spydrnet"):
                row.append(("new", type(a).__name__))
            else:
                row.append(("v", core.freeze(a)))
        out.append(tuple(row))
    return out


def _containers():
    from spydrnet.global_state import global_callback
    return {k: len(v) for k, v in vars(global_callback).items() if k.startswith("_container_")}


def _run_with(scn, hooks, ev, veto=False):
    """seed (+ one event) under a listener overriding exactly `hooks`: (outcome, digest, seed log, event log,
    registration problems)."""
    core.reset_world()
    core.set_order("asc")
    core.sdn().namespace_manager.default = scn.policy
    before = _containers()
    log, probs = [], []
    lst = None
    vstate = {"armed": False} if veto else None
    try:
        lst = make_partial(hooks, log, vstate)()
    except Exception as ex:
        probs.append(("listener-registration-raised:" + type(ex).__name__, repr(ex)[:200]))
    from vlib.world import World
    w = World()
    outcome, dig, d, nseed = ("seed", None), None, [], 0
    try:
        scn.seed(w)
    except Exception as ex:   # only a listener can make the seed script fail
        probs.append(("seed-raised-under-listener:" + type(ex).__name__, repr(ex)[:200]))
        outcome = ("seed-raised", type(ex).__name__)
    else:
        w.discover()
        nseed = len(log)
        if veto:
            pre = core.digest(snapshot(w, hidden=False))
            vstate["armed"] = True
        if ev is not None:
            outcome = engine_a.apply_event(w, engine_a.ops.build_ops(), ev)
        dig = core.digest(snapshot(w))
        if veto:
            # the IR only: listeners that were told before the vetoing one (the namespace manager) keep what they
            # noted - that is inherent in the framework and not what is judged here
            dig = (pre, core.digest(snapshot(w, hidden=False)))
        # (objects a listener heard of but the pool cannot reach are indexed only now, for the comparison of logs)
        reachable = len(w.pool)
        w.discover(extra=[a for _, args in log for a in args if type(a).__module__.startswith("spydrnet.ir")])
        d = _descr(w, log, reachable)
    if lst is not None:
        try:
            lst.deregister_all_listeners()
        except Exception as ex:
            probs.append(("listener-deregistration-raised:" + type(ex).__name__, repr(ex)[:200]))
    after = _containers()
    if after != before:
        left = sorted(k for k in after if after[k] != before[k])
        probs.append(("listener-left-registered", "after deregister_all_listeners: %s" % left))
        from spydrnet.global_state import global_callback
        for k in left:   # do not let the residue reach the next case
            cont = getattr(global_callback, k)
            del cont[before[k]:]
    return outcome, dig, d[:nseed], d[nseed:], probs


def order_worker(case):
    """n listeners registered one after the other, some of them removed again, then a script that makes every kind of
    announcement: the remaining listeners are called in the order in which they were registered (the documented
    contract, on which a listener registered last to hear only what the others let pass relies)."""
    _, n, removed, _ = case
    core.reset_world()
    core.set_order("asc")
    s = core.sdn()
    hooks = hook_names()
    log = []

    def mk(tagk, h):
        def f(self, *a):
            log.append((tagk, h))
        f.__name__ = h
        return f
    from spydrnet.callback.callback_listener import CallbackListener
    ls = []
    for k in range(n):
        cls = type("Ordered%d" % k, (CallbackListener,), {h: mk(k, h) for h in hooks})
        l = cls()      # (the constructor registers every overridden hook)
        ls.append(l)
    for k in removed:
        ls[k].deregister_all_listeners()
    probs = []
    try:
        nl = s.Netlist(name="n")
        lib = nl.create_library(name="l")
        leaf = lib.create_definition(name="leaf")
        p = leaf.create_port(name="p", pins=1)
        d = lib.create_definition(name="d")
        c = d.create_cable(name="c", wires=1)
        x = d.create_child(name="x", reference=leaf)
        c.wires[0].connect_pin(x.pins[p.pins[0]])
        x["k"] = 1
        x.pop("k")
        x["k"] = 2
        del x["k"]
        x.name = "y"
        nl.top_instance = d
        c.wires[0].disconnect_pin(x.pins[p.pins[0]])
        x.reference = None
        d.remove_child(x)
        p.remove_pin(p.pins[0])
        leaf.remove_port(p)
        c.remove_wire(c.wires[0])
        d.remove_cable(c)
        lib.remove_definition(d)
        nl.remove_library(lib)
    finally:
        for k, l in enumerate(ls):
            if k not in removed:
                l.deregister_all_listeners()
    keep = [k for k in range(n) if k not in removed]
    fired = set(h for _, h in log)
    # the log is a concatenation of blocks, one per announcement: in each block the listeners appear in registration order
    i = 0
    while i < len(log):
        block = log[i:i + len(keep)]
        if [k for k, _ in block] != keep or len(set(h for _, h in block)) != 1:
            probs.append(("listeners-called-out-of-registration-order:%d-registered:%d-removed" % (n, len(removed)),
                          "listeners %s remain (in that order of registration); announcement %r reached them as %s" % (keep, block[0][1], [k for k, _ in block])))
            break
        i += len(keep)
    return {"key": core.digest(case), "nontrivial": True, "outcome": "ok", "problems": probs, "transitions": len(log), "fired": sorted(fired)}


def partial_worker(case):
    """every single-hook listener and every all-but-one listener against the all-hooks listener and against no
    listener, over the seed and every enabled first event of one scenario."""
    if case[0] == "order":
        return order_worker(case)
    scn = scenarios_by_name()[case[1]]
    hooks = hook_names()
    probs = []
    core.reset_world()
    core.set_order("asc")
    core.sdn().namespace_manager.default = scn.policy
    w = engine_a.build(scn, "asc", [])
    events = list(engine_a.enabled(scn, w))[:: case[2]][case[3]:: case[4]]
    del w
    runs = 0
    fired = set()
    for ev in ([None] if case[3] == 0 else []) + events:
        name = ev[0] if ev else "seed"
        o_none, d_none, _, _, p0 = _run_with(scn, [], ev)
        o_full, d_full, s_full, e_full, p1 = _run_with(scn, hooks, ev)
        runs += 2
        probs += [(c + ":none@" + name, d) for c, d in p0] + [(c + ":all@" + name, d) for c, d in p1]
        if (o_full, d_full) != (o_none, d_none):
            probs.append(("listeners-change-behaviour:all@" + name, "%s/%s vs %s/%s" % (o_full, d_full, o_none, d_none)))
        log_full = s_full + e_full if ev is None else e_full
        for h in sorted(set(r[0] for r in log_full)):
            fired.add(h)
            for kind, sel in (("only", [h]), ("all-but", [x for x in hooks if x != h])):
                o, d, s_, e_, pp = _run_with(scn, sel, ev)
                runs += 1
                probs += [("%s:%s:%s@%s" % (c, kind, h, name), dd) for c, dd in pp]
                if (o, d) != (o_none, d_none):
                    probs.append(("listeners-change-behaviour:%s:%s@%s" % (kind, h, name), "%s/%s vs %s/%s" % (o, d, o_none, d_none)))
                got = s_ + e_ if ev is None else e_
                want = [r for r in log_full if (r[0] == h) == (kind == "only")]
                if got != want:
                    probs.append(("partial-listener-told-differently:%s:%s@%s" % (kind, h, name),
                                  "expected %d announcements %s, got %d %s" % (len(want), want[:3], len(got), got[:3])))
        # a listener that refuses the *first* change the call announces: announced before it takes effect means that
        # nothing has happened to the netlists yet
        if ev is not None and e_full:
            h0 = e_full[0][0]
            o, dg, _, e_, pp = _run_with(scn, [h0], ev, veto=True)
            runs += 1
            probs += [("%s:veto:%s@%s" % (c, h0, name), dd) for c, dd in pp]
            pre, post = dg if dg is not None else (None, None)   # (None: the seed itself failed under this listener, reported above)
            if dg is None:
                pass
            elif o != ("raised", "Veto"):
                probs.append(("veto-ignored:%s@%s" % (h0, name), "outcome %s" % (o,)))
            elif pre != post:
                probs.append(("vetoed-change-left-traces:%s@%s" % (h0, name), "the first announcement of the call was refused by a listener, yet the netlists differ from before the call"))
    return {"key": core.digest(case), "nontrivial": True, "outcome": "ok", "problems": probs, "transitions": runs,
            "fired": sorted(fired)}


engine_b.WORKERS[ID] = partial_worker


def scenarios_by_name():
    return {x.name: x for x in scenarios.STRUCTURAL + [scenarios.S6, scenarios.S7, scenarios.S8]}


def partial_cases(tier):
    stride = 3 if tier == "quick" else 1
    parts = 8
    out = [("partial", name, stride, k, parts, "asc") for name in scenarios_by_name() for k in range(parts)]
    # registration order: 2..5 listeners, every proper subset of them removed again
    import itertools
    for n in range(2, 6):
        for r in range(0, n):
            for removed in itertools.combinations(range(n), r):
                out.append(("order", n, list(removed), "asc"))
    return out


def run(tier, seed):
    cov = core.Coverage(
        "Engine A with a CallbackListener registered before the seed is built: a shadow model of plain sets/dicts is "
        "updated only from notifications and compared with the real structure after every call of every history; "
        "at notification time the announced change must not be visible yet; every transition is re-executed without "
        "listeners and must give the same outcome and state; non-trivial = distinct states first reached by a call "
        "that produced at least one notification")
    found = {}
    deadline = time.time() + (900 if tier == "quick" else 6000)
    scns = scenarios.STRUCTURAL + [scenarios.S6, scenarios.S7, scenarios.S8] + [x for x in scenarios.naming_scenarios() if x.name == "N-MIX-EDIF"]
    k = seed % len(scns)
    for scn in scns[k:] + scns[:k]:
        engine_a.explore(ID, scn, tier, cov, found, deadline)
    if tier == "thorough":
        for scn in (scenarios.S5, scenarios.S7):
            engine_a.explore(ID + "x2", scn, tier, cov, found, deadline)
    # partial listeners: registration follows what a listener overrides
    fired = set()
    t0 = time.time()
    pcs = partial_cases(tier)
    runs = 0
    for case, r in zip(pcs, core.pimap(engine_b._call, [(ID, c) for c in pcs], 1)):
        fired.update(r.get("fired", ()))
        runs += r["transitions"]
        for sig, what in r.get("problems", ()):
            f = found.get(sig)
            if f is None:
                found[sig] = {"count": 1, "what": what, "case": {"engine": "B", "worker": ID, "case": case}}
            else:
                f["count"] += 1
    cov.add("transitions", runs)
    cov.add("evaluations", runs)
    cov.add("traces_validated_against_impl", runs)
    cov["bounds_completed"]["partial-listeners"] = {"scenarios": len(pcs), "event_stride": pcs[0][2], "runs": runs,
                                                    "wall_s": round(time.time() - t0, 2)}
    cov["partial_listeners"] = {"hooks": len(hook_names()), "hooks_fired_and_tried_alone": sorted(fired),
                                "hooks_never_fired": sorted(set(hook_names()) - fired)}
    return cov, found


def replay(case):
    if case.get("engine") == "B":
        return engine_b.replay_case(case)
    return engine_a.replay_case(case)
