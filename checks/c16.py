"""C16 - writing a netlist does not change it and is repeatable (Engine B)."""
import gc
import os
import time

from vlib import core, design, engine_b, fdesigns, edif_writer, verilog_writer as vw, eblif_writer as ew
from vlib.world import World, snapshot
from checks import c03, c05, c06, c18

ID = "C16"
LEVEL = "model_checking"
ASSUMPTIONS = [
    "inputs: API-built netlists (base designs, F_hier K1/K2/K8), reader-built netlists of all three formats "
    "(independent-writer texts, bundled files under a byte cap) x target format x composer options",
    "permitted EDIF side effects, as documented: dependency order of libraries and cells, added EDIF.identifier / "
    "EDIF.rename entries, defaulted netlist name; nothing else may change; Verilog and EBLIF writers may change nothing",
    "a format is 'composable' for an input when its composer returns normally",
]
TARGETS = (".edf", ".v", ".eblif")


def masked(snap, edif, before=None):
    """identity-level snapshot with the documented EDIF side effects masked out."""
    objs, hidden = snap if isinstance(snap, tuple) and len(snap) == 2 and isinstance(snap[1], tuple) and len(snap[0]) and isinstance(snap[0][0], tuple) else (snap, None)
    out = []
    for i, o in enumerate(objs):
        o = list(o)
        if edif:
            if o[0] == "N":
                o[1] = tuple(sorted(o[1]))
            if o[0] == "L":
                o[2] = tuple(sorted(o[2]))
            if o[0] in "NLDPCX":
                data = o[-1]
                keep = []
                prev = dict(before[i][-1]) if before is not None and i < len(before) else {}
                for k, v in data:
                    if k in ("EDIF.identifier", "EDIF.rename") and k not in prev:
                        continue
                    if o[0] == "N" and k == ".NAME" and k not in prev:
                        continue
                    keep.append((k, v))
                o[-1] = tuple(keep)
        out.append(tuple(o))
    return tuple(out)


def source(case):
    s = core.sdn()
    kind = case[1]
    if kind == "api-base":
        return design.build_netlist(c03.to_api(fdesigns.BASES[case[2]]())), "api:" + case[2]
    if kind == "api-base-rev":
        # declared parent first: the EDIF writer's dependency ordering has work to do
        ad = dict(c03.variants(fdesigns.BASES[case[2]]()))["reversed-declaration-order"]
        return design.build_netlist(c03.to_api(ad)), "api-parent-first:" + case[2]
    if kind == "api-hier":
        d = case[2]
        return design.build_netlist(design.materialize((d[0], tuple(d[1]), d[2]))), "api:hier"
    if kind == "edif-text":
        return c05.parse_text(edif_writer.render(fdesigns.BASES[case[2]]())), "edif-reader:" + case[2]
    if kind == "api-deep":
        # hierarchies beyond toy size, declared parent first in ONE library (the EDIF writer has to sort them):
        # a chain of 40 cells, and 6 layers of 8 cells each of which instances every cell of the layer below
        n = s.Netlist(name="deep")
        lib = n.create_library(name="work")
        if case[2] == "chain":
            cells = [lib.create_definition(name="c%02d" % i) for i in range(40)]
            for up, down in zip(cells, cells[1:]):
                up.create_child(name="u", reference=down)
            top = cells[0]
        else:
            layers = [[lib.create_definition(name="l%d_%d" % (a, b)) for b in range(8)] for a in range(6)]
            for upper, lower in zip(layers, layers[1:]):
                for d in upper:
                    for k, e in enumerate(lower):
                        d.create_child(name="u%d" % k, reference=e)
            top = lib.create_definition(name="top")
            for k, d in enumerate(layers[0]):
                top.create_child(name="t%d" % k, reference=d)
        for d in lib.definitions:
            d.create_port(name="p", pins=1)
        n.top_instance = top
        n.top_instance.name = "top_i"
        return n, "api-deep:" + case[2]
    if kind == "api-foreign-cell":
        # a design that instances a cell living in a library of ANOTHER netlist: not writable as EDIF
        n = design.build_netlist(c03.to_api(fdesigns.BASES[case[2]]()))
        other = s.Netlist(name="elsewhere")
        cell = other.create_library(name="their_lib").create_definition(name="their_cell")
        cell.create_port(name="p", pins=1)
        n.top_instance.reference.create_child(name="borrowed", reference=cell)
        return n, "api-foreign-cell:" + case[2]
    if kind == "edif-text-ids":
        # identifiers that are not derived from the names, the same one in every scope of its kind
        ad = fdesigns.BASES[case[2]]()
        for lib in ad["libs"]:
            for d in lib["defs"]:
                d["ports"] = d["ports"] + [dict(fdesigns.port("p(x)", 1, "in"), id="PX")]
                if d.get("insts"):
                    d["insts"] = d["insts"] + [{"name": "i(x)", "id": "IX", "ref": d["insts"][0]["ref"]}]
                    d["nets"] = (d.get("nets") or []) + [{"name": "n(x)", "id": "NX", "bits": [[]]}]
            lib["defs"] = lib["defs"] + [{"name": "cell(fast)", "id": "CELLX", "ports": [], "insts": [], "nets": []}]
        return c05.parse_text(edif_writer.render(ad)), "edif-reader-own-identifiers:" + case[2]
    if kind == "verilog-text":
        return c06.parse_text(vw.render(c06.base_vad(), order=list(case[2]))), "verilog-reader:base"
    if kind == "eblif-text":
        return c18.parse_text(ew.render(c18.base(case[2]))), "eblif-reader:" + case[2]
    sub, f = case[2], case[3]
    with core.quiet():
        return s.parse(os.path.join(core.REPO, "example_netlists", sub, f)), "bundled-" + sub.split("_")[0].lower()


def run_queries(n):
    s = core.sdn()
    for fn in (s.get_libraries, s.get_definitions, s.get_instances, s.get_ports, s.get_pins, s.get_cables, s.get_wires):
        list(fn(n))
    for fn in (s.get_hinstances, s.get_hports, s.get_hpins, s.get_hcables, s.get_hwires):
        list(fn(n, recursive=True))


def strip_ts(b):
    return b"\n".join(l for l in b.split(b"\n") if b"timeStamp" not in l and b"timestamp" not in l.lower())


def worker(case):
    """(the cyclic garbage collector is switched off for the duration of a case: "complete and closed when the call
    returns" must not depend on when a collection happens to run)"""
    import gc
    gc.disable()
    try:
        return _worker(case)
    finally:
        gc.enable()
        gc.collect()


def _worker(case):
    core.reset_world()
    core.set_order(case[-1])
    s = core.sdn()
    probs = []
    target, opts = case[0]
    ext = target              # the extension as written (.edif, .vh, .vm, .blif, upper case ... are documented aliases)
    target = {".edif": ".edf", ".vh": ".v", ".vm": ".v", ".blif": ".eblif"}.get(ext.lower(), ext.lower())
    n, tag = source(case)
    opts = dict(opts)
    nameless = bool(opts.pop("_nameless", False))
    if opts.pop("_comment_string", False):
        n["EBLIF.comment"] = "one plain string"     # user data of another type than the reader would store
        tag += ":comment-string"
    method = bool(opts.pop("_method", False))
    if nameless and target != ".edf":
        del n.name
        tag += ":nameless"
    tag = "%s->%s%s" % (tag, ext, ":method" if method else "")

    def do_compose(path):
        if method:
            n.compose(path, **opts)   # the Netlist.compose shortcut
        else:
            s.compose(n, path, **opts)
    w = World()
    w.add(n)
    before_raw = snapshot(w, hidden=False)
    edif = target == ".edf"
    before = masked(before_raw, edif, before_raw)
    key = core.digest((before_raw, target, repr(opts), method, nameless))
    path = os.path.join(core.scratch_dir(), "c16_%d%s" % (os.getpid(), ext))
    try:
        with core.quiet():
            do_compose(path)
    except Exception as ex:
        # a refused write leaves the netlist as it was, and asking again gives the same refusal
        after = masked(snapshot(w, hidden=False), edif, before_raw)
        if after != before:
            msg = next(("%s -> %s" % (a, b) for a, b in zip(before, after) if a != b), "object count %d -> %d" % (len(before), len(after)))
            probs.append(("refused-compose-changed-netlist:%s:%s" % (type(ex).__name__, tag), msg[:400]))
        try:
            with core.quiet():
                do_compose(path)
            probs.append(("refused-compose-accepted-when-repeated:%s:%s" % (type(ex).__name__, tag), "the same call, refused a moment ago, now writes a file"))
        except Exception as ex2:
            if type(ex2) is not type(ex):
                probs.append(("refused-compose-refused-differently:%s:%s" % (type(ex).__name__, tag), "then %s" % type(ex2).__name__))
        return {"key": key, "nontrivial": True, "outcome": "not-composable:" + type(ex).__name__, "problems": probs, "transitions": 2}
    first = open(path, "rb").read()
    after = masked(snapshot(w, hidden=False), edif, before_raw)
    if after != before:
        msg = ""
        if len(after) != len(before):
            msg = "object count %d -> %d" % (len(before), len(after))
        else:
            for a, b in zip(before, after):
                if a != b:
                    msg = "%s -> %s" % (a, b)
                    break
        kind = "data" if len(after) == len(before) and all(a[:-1] == b[:-1] for a, b in zip(before, after)) else "structure"
        probs.append(("compose-changed-netlist:%s:%s" % (kind, tag), msg[:400]))
    gc.collect()
    if open(path, "rb").read() != first:
        probs.append(("file-incomplete-at-return:" + tag, "bytes differ after gc.collect()"))
    try:
        with core.quiet():
            do_compose(path)
        second = open(path, "rb").read()
        if strip_ts(second) != strip_ts(first):
            probs.append(("second-compose-differs:" + tag, "first %d bytes, second %d bytes" % (len(first), len(second))))
        run_queries(n)
        with core.quiet():
            do_compose(path)
        third = open(path, "rb").read()
        if strip_ts(third) != strip_ts(first):
            probs.append(("compose-after-queries-differs:" + tag, "first %d bytes, third %d bytes" % (len(first), len(third))))
    except Exception as ex:
        probs.append(("repeated-compose-raised:%s:%s" % (type(ex).__name__, tag), repr(ex)[:200]))
    final = masked(snapshot(w, hidden=False), edif, before_raw)
    if final != before and after == before:
        probs.append(("repeated-compose-changed-netlist:" + tag, ""))
    # complete and closed: non-empty, stable (checked above) and properly terminated for its format
    text = first.decode(errors="replace")
    if not text.strip():
        probs.append(("written-file-empty:" + tag, ""))
    elif target == ".edf" and text.count("(") != text.count(")"):
        probs.append(("written-file-truncated:" + tag, "unbalanced parentheses"))
    elif target == ".eblif" and not text.rstrip().endswith(".end"):
        probs.append(("written-file-truncated:" + tag, "does not end with .end"))
    elif target == ".v" and text.count("endmodule") == 0:
        probs.append(("written-file-truncated:" + tag, "no endmodule"))
    return {"key": key, "nontrivial": True, "outcome": "ok", "problems": probs, "transitions": 4}


engine_b.WORKERS[ID] = worker


def option_sets(target, tier):
    if target == ".v":
        out = [{"write_blackbox": True, "defparam": False}, {"write_blackbox": False, "defparam": True}]
        if tier == "thorough":
            out += [{"write_blackbox": True, "defparam": True}, {"write_blackbox": False, "defparam": False}]
        return out
    if target == ".eblif":
        return [{"write_blackbox": True, "write_eblif_cname": True}, {"write_blackbox": False, "write_eblif_cname": False}]
    return [{}]


def cases(tier):
    import itertools
    srcs = []
    for b in fdesigns.BASES:
        srcs.append(("api-base", b))
        srcs.append(("api-base-rev", b))
        srcs.append(("edif-text", b))
        if b in ("E4", "E9") or tier == "thorough":
            srcs.append(("edif-text-ids", b))
        if b in ("E1", "E4") or tier == "thorough":
            srcs.append(("api-foreign-cell", b))
    srcs.append(("api-deep", "chain"))
    srcs.append(("api-deep", "layers"))
    for desc in design.family_hier(tier, variants=("plain", "two-libraries")):
        if desc[0] in ("K8-bus",) or (desc[0] in ("K1-chain2", "K2-shared") and (tier == "thorough" or sum(desc[1]) % 5 == 0)):
            srcs.append(("api-hier", desc))
    for order in itertools.permutations(range(3)):
        srcs.append(("verilog-text", list(order)))
    for b in ("B1", "B2", "B3"):
        srcs.append(("eblif-text", b))
    for sub, files in (("EDIF_netlists", c05.bundled_files(tier)),
                       ("verilog_netlists", __import__("checks.c04", fromlist=["x"]).bundled_files(tier)),
                       ("eblif_netlists", [c[1] for c in c18.cases(tier) if c[0] == "bundled"])):
        for f in files:
            srcs.append(("bundled", sub, f))
    out = []
    for src in srcs:
        for t in TARGETS:
            for opts in option_sets(t, tier):
                out.append(((t, opts),) + src + ("asc",))
                if src[0] in ("api-base", "api-base-rev") and t == ".edf":
                    out.append(((t, opts),) + src + ("desc",))   # the dependency sort iterates sets
        if src[0] == "verilog-text":
            out.append(((".v", {"definition_list": ["top"], "write_blackbox": True}),) + src + ("asc",))
        if src == ("api-base", "E1") or src[0] == "verilog-text" and src[1] == [0, 1, 2]:
            for alias in (".edif", ".EDF", ".vh", ".vm", ".V", ".blif", ".EBLIF"):
                out.append(((alias, {}),) + src + ("asc",))
        if src[0] in ("api-base", "eblif-text"):
            out.append(((".eblif", {"_comment_string": True}),) + src + ("asc",))
        if src[0] in ("api-base", "verilog-text", "eblif-text"):
            # the Netlist.compose shortcut, also on a netlist that has no name
            for t in TARGETS:
                out.append(((t, {"_method": True}),) + src + ("asc",))
                if t != ".edf":
                    out.append(((t, {"_method": True, "_nameless": True}),) + src + ("asc",))
                    out.append(((t, {"_nameless": True}),) + src + ("asc",))
    return out


def run(tier, seed):
    cov = core.Coverage(
        "Engine B: every netlist of the input space (API-built and reader-built, all three origins) is composed to "
        "every target format under every option set; an identity-level snapshot of the whole netlist before == after "
        "(documented EDIF side effects masked); the file is complete at return, a second compose and a compose after "
        "running all query functions give the same bytes modulo the timestamp, and the file is properly terminated; states = distinct "
        "(netlist, target, options)")
    found = {}
    deadline = time.time() + (900 if tier == "quick" else 6000)
    cs = cases(tier)
    k = seed % 7
    engine_b.run_cases(ID, cs[k:] + cs[:k], cov, found, deadline, level="compose/" + tier)
    engine_b.finish(cov)
    return cov, found


def replay(case):
    return engine_b.replay_case(case)
