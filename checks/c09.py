"""C09 - flatten removes all hierarchy and preserves leaf-level connectivity (Engine B)."""
import time

from vlib import core, design, elab, engine_b, wf
from checks import _hier

ID = "C09"
LEVEL = "model_checking"
ASSUMPTIONS = [
    "input space: the F_hier family after uniquify (all named), see coverage.bounds_completed",
    "instance data is compared apart from the naming keys .NAME / EDIF.identifier that flattening rewrites",
]
NAMING = (".NAME", "EDIF.identifier", ".NS")


def one_round(n, tag, probs):
    """uniquify + flatten once with every clause of the property; ("ok" | "raised", non-trivial)."""
    from spydrnet.uniquify import uniquify
    from spydrnet.flatten import flatten
    e0 = elab.Elab(n)
    part0 = e0.endpoint_partition()
    leaves0 = {}
    for p in e0.leaf_paths():
        x = p[-1]
        leaves0[e0.pname(p)] = (x.reference, {k: core.freeze(v) for k, v in x.data.items() if k not in NAMING})
    nontriv = _hier.crosses_boundary(e0)
    try:
        uniquify(n)
        flatten(n)
    except Exception as ex:
        probs.append(("flatten-raised:%s:%s" % (type(ex).__name__, tag), repr(ex)))
        return ("raised", nontriv)
    top = n.top_instance.reference
    kids = list(top.children)
    names = [x.name for x in kids]
    if sorted(map(str, names)) != sorted(leaves0):
        probs.append(("leaf-instances-differ:" + tag, "expected %s got %s" % (sorted(leaves0), sorted(map(str, names)))))
    for x in kids:
        r = x.reference
        if r is None or not elab.is_leaf_def(r):
            probs.append(("hierarchical-instance-remains:" + tag, "%s of %s" % (x.name, r.name if r else None)))
        if x.name in leaves0:
            r0, d0 = leaves0[x.name]
            if r is not r0:
                probs.append(("leaf-definition-changed:" + tag, "%s: %s -> %s" % (x.name, r0.name, r.name if r else None)))
            d1 = {k: core.freeze(v) for k, v in x.data.items() if k not in NAMING}
            if d1 != d0:
                probs.append(("leaf-data-changed:" + tag, "%s: %s -> %s" % (x.name, d0, d1)))
    part1 = elab.flat_partition(n)
    if part1 != part0:
        probs.append(("connectivity-changed:" + tag, "before %s after %s" % (_hier.fmt_part(part0), _hier.fmt_part(part1))))
    for c, d in wf.wf_netlist(n):
        probs.append(("malformed-after-flatten:%s:%s" % (c, tag), d))
    return ("ok", nontriv)


def worker(case):
    probs = []
    variant = case[2] if len(case) > 2 else None
    ad, n = _hier.prepare(case, policy="EDIF" if variant in ("edif-identifiers", "edif-identifiers-taken") else None)
    from spydrnet.uniquify import uniquify
    from spydrnet.flatten import flatten

    if variant == "other-policy-in-force":
        core.sdn().namespace_manager.default = "EDIF"   # built under DEFAULT, transformed while EDIF is the default
    if variant in ("edif-identifiers", "edif-identifiers-taken"):
        # what the EDIF reader hands over: the EDIF policy in force, every element carrying an identifier
        for l in n.libraries:
            l["EDIF.identifier"] = "ID_" + l.name
            for d in l.definitions:
                d["EDIF.identifier"] = "ID_" + d.name
                for el in list(d.ports) + list(d.cables) + list(d.children):
                    el["EDIF.identifier"] = "ID_" + el.name
        if variant == "edif-identifiers-taken":
            # ... and the top cell already uses identifiers of the form flatten generates
            top = n.top_instance.reference
            leafdef = next(d for l in n.libraries for d in l.definitions if elab.is_leaf_def(d) and d.ports)
            for d in [top] + [d for l in n.libraries for d in l.definitions if d is not top and not elab.is_leaf_def(d)]:
                # (the top cell carries fourteen consecutive taken candidates: a search that gives up after ten
                # tries ends on a taken one)
                for k in range(14 if d is top else 3):
                    # (identifiers compare case-insensitively: every other spare is spelled in upper case)
                    cid = "cable_sdn_flat_%d" % (k if d is top else k + 14)
                    xid = "instance_sdn_flat_%d" % (k if d is top else k + 14)
                    d.create_cable(name="spare_c%d" % k)["EDIF.identifier"] = cid.upper() if k % 2 == 0 else cid
                    d.create_child(name="spare_x%d" % k, reference=leafdef)["EDIF.identifier"] = xid.upper() if k % 2 == 0 else xid

    if variant == "top-name-twice":
        # a hierarchical cell that is not the top lives in another library under the very name of the top cell
        top = n.top_instance.reference
        other = next((d for l in n.libraries for d in l.definitions if d is not top and not elab.is_leaf_def(d)), None)
        if other is not None:
            ip = n.create_library(name="ip")
            other.library.remove_definition(other)
            ip.add_definition(other)
            other.name = top.name
    key = _hier.key_of(case, n)
    tag = "%s:%s" % (case[0][0], case[2] if len(case) > 2 else case[0][2])
    res = one_round(n, tag, probs)
    if res[0] == "raised":
        return {"key": key, "nontrivial": res[1], "outcome": "raised", "problems": probs, "transitions": 1}
    if variant == "flat-block-reused":
        # not from the initial state: the flattened cell is instantiated twice in a new top cell, one instance
        # carrying the name of an instance inside (names repeat along a path), and everything is flattened again
        s = core.sdn()
        old_top = n.top_instance.reference
        inner = next((x.name.split("/")[0] for x in old_top.children if x.name and "/" in x.name), "ua")
        tt = old_top.library.create_definition(name="TT")
        tt.create_child(name=inner, reference=old_top)
        tt.create_child(name="other", reference=old_top)
        former = n.top_instance
        n.top_instance = tt
        n.top_instance.name = "tt"
        former.reference = None     # (the former top instance would otherwise linger in the old top cell's reference set)
        res2 = one_round(n, tag + ":round-2", probs)
        if res2[0] == "raised":
            return {"key": key, "nontrivial": True, "outcome": "raised", "problems": probs, "transitions": 2}
    return {"key": key, "nontrivial": res[1], "outcome": "ok", "problems": probs, "transitions": 1}


engine_b.WORKERS[ID] = worker


def cases(tier):
    out = [(desc, order) for desc in design.family_hier(tier) for order in core.ORDER_VARIANTS]
    # every sharing shape of a hierarchy up to five levels deep (fixed pass-through wiring)
    for desc in design.shape_family(5 if tier == "thorough" else 4):
        out.append((desc, "asc"))
        if tier == "thorough" or len(desc[1]) <= 3:
            out.append((desc, "desc"))
            out.append((desc, "asc", "edif-identifiers"))
            out.append((desc, "asc", "after-refused-edits"))
            out.append((desc, "asc", "top-name-twice"))
    for desc in design.family_hier(tier, variants=("plain",)):
        if desc[0] in ("K2-shared", "K8-bus", "K1-chain2"):
            out.append((desc, "asc", "late-ports"))
        if desc[0] in ("K1-chain2", "K8-bus", "K5-chain3") and (tier == "thorough" or sum(desc[1]) % 4 == 0):
            out.append((desc, "asc", "edif-identifiers"))
            out.append((desc, "asc", "edif-identifiers-taken"))
            out.append((desc, "asc", "other-policy-in-force"))
        if desc[0] in ("K1-chain2", "K8-bus", "K5-chain3") and (tier == "thorough" or sum(desc[1]) % 4 == 0):
            out.append((desc, "asc", "flat-block-reused"))
        if desc[0] in ("K1-chain2", "K2-shared", "K8-bus", "K7-shared-both") and (tier == "thorough" or sum(desc[1]) % 5 == 0):
            out.append((desc, "asc", "after-refused-edits"))
            out.append((desc, "asc", "top-name-twice"))
    return out


def run(tier, seed):
    cov = core.Coverage(
        "Engine B: every design of the F_hier family is built, elaborated independently (union-find over "
        "hierarchical wires), uniquified and flattened; the flattened top definition is read directly and compared "
        "(leaf instances by slash-joined path, leaf definition, data, partition of leaf pin bits and top port bits); "
        "states = distinct canonical inputs; non-trivial = some net spans more than one hierarchy level")
    found = {}
    deadline = time.time() + (900 if tier == "quick" else 6000)
    cs = cases(tier)
    k = seed % 7
    engine_b.run_cases(ID, cs[k:] + cs[:k], cov, found, deadline, level="F_hier/" + tier)
    engine_b.finish(cov)
    return cov, found


def replay(case):
    return engine_b.replay_case(case)
