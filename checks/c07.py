"""C07 - clones are faithful, self-contained and independent of the original (Engine B + edit tails)."""
import time

from vlib import core, design, engine_b, wf
from vlib.world import World, snapshot, kind_of
from checks import _hier

ID = "C07"
LEVEL = "model_checking"
ASSUMPTIONS = [
    "inputs: F_hier designs (variants: plain, two libraries, instance outside the top hierarchy, top also a child, "
    "unnamed elements, nested user data); every element of each design is a clone root; then every edit sequence of "
    "length <= 1 (quick) / <= 2 (thorough) from a 12-operation alphabet on the copy or on the original",
    "expected structure of element clones is taken from the clone() docstrings / docs/clone.rst: internal structure "
    "kept, links leaving the cloned sub-tree cut, instances keep (and register with) outside definitions",
]

CHILD_LISTS = {"N": ("_libraries",), "L": ("_definitions",), "D": ("_ports", "_cables", "_children"),
               "P": ("_pins",), "C": ("_wires",)}


def pair_up(a, b, m, probs, tag):
    """parallel walk over the owned sub-structure building the correspondence m (id(orig) -> (orig, copy))."""
    if type(a) is not type(b):
        probs.append(("copy-has-wrong-type:" + tag, "%s vs %s" % (type(a).__name__, type(b).__name__)))
        return
    if id(a) in m:
        return
    m[id(a)] = (a, b)
    k = kind_of(a)
    for attr in CHILD_LISTS.get(k, ()):
        la, lb = getattr(a, attr), getattr(b, attr)
        if len(la) != len(lb):
            probs.append(("child-count-differs:%s:%s" % (k + attr, tag), "%d vs %d" % (len(la), len(lb))))
        for x, y in zip(la, lb):
            pair_up(x, y, m, probs, tag)
    if k == "X":
        if len(a._pins) != len(b._pins):
            probs.append(("outer-pin-count-differs:" + tag, "%d vs %d" % (len(a._pins), len(b._pins))))
        for x, y in zip(a._pins.values(), b._pins.values()):
            pair_up(x, y, m, probs, tag)
    if k == "N" and a._top_instance is not None:
        if b._top_instance is None:
            probs.append(("top-instance-missing:" + tag, ""))
        else:
            pair_up(a._top_instance, b._top_instance, m, probs, tag)


def aliased(va, vb):
    """do two data values share a mutable object?"""
    if isinstance(va, (list, dict, set)):
        if va is vb:
            return True
        if isinstance(va, dict) and isinstance(vb, dict):
            return any(aliased(va[k], vb[k]) for k in va if k in vb)
        if isinstance(va, list) and isinstance(vb, list):
            return any(aliased(x, y) for x, y in zip(va, vb))
    return False


def verify(m, probs, tag, root_kind):
    """every link of the copy is the image of the original's link, or cut where it left the cloned set."""
    img = lambda o: m[id(o)][1] if o is not None and id(o) in m else None
    inside = lambda o: o is not None and id(o) in m

    def link(a_target, b_target, what, outside_keeps=False):
        if inside(a_target):
            if b_target is not img(a_target):
                probs.append(("link-not-redirected:%s:%s" % (what, tag), "points to %s" % ("the original" if b_target is a_target else "something else")))
        elif outside_keeps:
            if b_target is not a_target:
                probs.append(("outside-link-not-kept:%s:%s" % (what, tag), ""))
        elif b_target is not None:
            probs.append(("link-not-cut:%s:%s" % (what, tag), "still points %s" % ("into the original" if b_target is a_target else "somewhere")))

    for a, b in list(m.values()):
        k = kind_of(a)
        if hasattr(a, "_data"):
            if core.freeze(a._data) != core.freeze(b._data):
                probs.append(("data-differs:%s:%s" % (k, tag), "%r vs %r" % (dict(a._data), dict(b._data))))
            if a._data is b._data or any(aliased(a._data[key], b._data.get(key)) for key in a._data):
                probs.append(("data-shared-with-original:%s:%s" % (k, tag), ""))
        if k in "PC":
            for attr in ("_is_downto", "_is_scalar", "_lower_index"):
                if getattr(a, attr) != getattr(b, attr):
                    probs.append(("bundle-attribute-differs:%s:%s" % (attr, tag), ""))
            if k == "P" and a._direction != b._direction:
                probs.append(("bundle-attribute-differs:_direction:" + tag, ""))
            link(a._definition, b._definition, k + ".definition")
        elif k == "L":
            link(a._netlist, b._netlist, "L.netlist")
        elif k == "D":
            link(a._library, b._library, "D.library")
            want = set(id(img(x)) for x in a._references if inside(x))
            got = set(id(x) for x in b._references)
            # instances of the copy that reference it (they were cloned too) and nothing else
            if got != want:
                probs.append(("reference-set-of-copy-wrong:" + tag, "expected %d members, has %d (%d foreign)" % (len(want), len(got), len(got - want))))
        elif k == "I":
            link(a._port, b._port, "I.port")
            link(a._wire, b._wire, "I.wire")
        elif k == "O":
            link(a._instance, b._instance, "O.instance")
            link(a._wire, b._wire, "O.wire")
            if root_kind == "O":
                if b._inner_pin is not None:
                    probs.append(("link-not-cut:O.inner_pin:" + tag, ""))
            else:
                link(a._inner_pin, b._inner_pin, "O.inner_pin", outside_keeps=True)
        elif k == "W":
            link(a._cable, b._cable, "W.cable")
            want = [id(img(p)) for p in a._pins if inside(p)]
            got = [id(p) for p in b._pins]
            if want != got:
                probs.append(("wire-pins-differ:" + tag, "expected %d pins in order, has %d" % (len(want), len(got))))
        elif k == "X":
            link(a._parent, b._parent, "X.parent")
            link(a._reference, b._reference, "X.reference", outside_keeps=True)
            if b._reference is not None and b not in b._reference._references:
                probs.append(("cloned-instance-not-in-reference-set:" + tag, ""))
            keys_a = [img(ip) if inside(ip) else ip for ip in a._pins]
            if [id(x) for x in keys_a] != [id(x) for x in b._pins]:
                probs.append(("outer-pins-keyed-wrong:" + tag, ""))
        elif k == "N":
            link(a._top_instance, b._top_instance, "N.top_instance")


def edits():
    """12-operation alphabet of edit tails; each takes a netlist and edits its first suitable element."""
    s = core.sdn()
    from spydrnet.uniquify import uniquify
    from spydrnet.flatten import flatten

    def first_def(n, pred=lambda d: True):
        return next(d for l in n.libraries for d in l.definitions if pred(d))

    def rename(n):
        first_def(n).name = "renamed"

    def data_edit(n):
        d = first_def(n)
        d["k2"] = "new"

    def nested_edit(n):
        x = next(x for l in n.libraries for d in l.definitions for x in d.children if "k" in x)
        x["k"][1]["z"] = "mutated-in-place"

    def add_child(n):
        top = n.top_instance.reference
        leaf = first_def(n, lambda d: d.is_leaf())
        top.create_child(name="zz_added", reference=leaf)

    def remove_child(n):
        d = first_def(n, lambda d: len(d.children))
        x = d.children[0]
        x.reference = None
        d.remove_child(x)

    def add_port(n):
        first_def(n, lambda d: len(d.references)).create_port(name="zz_port", pins=1)

    def remove_port(n):
        d = first_def(n, lambda d: len(d.ports) and len(d.references))
        d.remove_port(d.ports[0])

    def add_cable(n):
        n.top_instance.reference.create_cable(name="zz_cable", wires=1)

    def disconnect(n):
        w = next(w for l in n.libraries for d in l.definitions for c in d.cables for w in c.wires if w.pins)
        w.disconnect_pin(w.pins[0])

    def repoint(n):
        x = next(x for l in n.libraries for d in l.definitions for x in d.children)
        r = x.reference
        other = first_def(n, lambda d: d is not r and len(d.ports) == len(r.ports) and all(len(a.pins) == len(b.pins) for a, b in zip(d.ports, r.ports)))
        x.reference = other

    return [("rename", rename), ("data-edit", data_edit), ("nested-data-edit", nested_edit), ("add-child", add_child),
            ("remove-child", remove_child), ("add-port", add_port), ("remove-port", remove_port), ("add-cable", add_cable),
            ("disconnect", disconnect), ("re-point", repoint), ("uniquify", lambda n: uniquify(n)),
            ("flatten", lambda n: (uniquify(n), flatten(n)))]


def build(case):
    desc, order, extra = case[0], case[1], case[2]
    s = core.sdn()
    ad, n = _hier.prepare((desc, order), policy="EDIF" if extra == "edif-policy" else None)
    if extra == "edif-policy":
        assert n[".NS"] == "EDIF"
        # every named element also carries an EDIF identifier that differs from its name (mixed case)
        for l in n.libraries:
            l["EDIF.identifier"] = "ID_" + l.name
            for d in l.definitions:
                d["EDIF.identifier"] = "ID_" + d.name
                for el in list(d.ports) + list(d.cables) + list(d.children):
                    if el.name is not None:
                        el["EDIF.identifier"] = "ID_" + el.name
    # arbitrary nested user data on every kind of element (a list of dicts, like EDIF.properties)
    n["u"] = [{"a": [1, 2]}, {"b": {"c": 3}}]
    for l in n.libraries:
        l["u"] = [{"lib": [l.name]}]
        for d in l.definitions:
            d["u"] = [{"def": {"n": [d.name]}}]
            for el in list(d.ports) + list(d.cables):
                el["u"] = [{"k": [el.name, {"deep": [0]}]}]
    if extra == "odd-shapes":
        # bundles that are not based at 0 / not downto (also one bit wide, flagged scalar or not), wires whose pins
        # were attached in another order than ports-first
        for l in n.libraries:
            for d in l.definitions:
                for k, el in enumerate(list(d.ports) + list(d.cables)):
                    el.lower_index = 7 + k
                    el.is_downto = (k % 2 == 1)
                for c in d.cables:
                    for wr in c.wires:
                        if len(wr.pins) > 1:
                            wr.pins = list(reversed(list(wr.pins)))
    if extra == "unnamed":
        for l in n.libraries:
            for d in l.definitions:
                for x in list(d.children)[:1]:
                    del x.name
                for c in list(d.cables)[:1]:
                    del c.name
    if extra == "definition-removed":
        # a non-leaf definition leaves the netlist while its children still instantiate surviving cells
        top = n.top_instance.reference
        for l in n.libraries:
            for d in list(l.definitions):
                if d is not top and len(d.children) and all(x.parent is not None for x in d.references):
                    for x in list(d.references):
                        par = x.parent
                        for op in list(x.pins):
                            if op.wire is not None:
                                op.wire.disconnect_pin(op)
                        x.reference = None
                        par.remove_child(x)
                    l.remove_definition(d)
                    return n
    if extra == "many-instances":
        # every cell that is instanced gains ten more instances (in the top cell): reference sets of a dozen members
        top = n.top_instance.reference
        for l in n.libraries:
            for d in list(l.definitions):
                if d is not top and len(d.references):
                    for k in range(10):
                        top.create_child(name="more_%s_%d" % (d.name, k), reference=d)
    if extra == "top-also-child":
        holder = n.libraries[0].create_definition(name="HOLDER")
        holder.add_child(n.top_instance)
    return n


def elements(n):
    w = World()
    w.add(n)
    w.discover()
    return w


def worker(case):
    core.reset_world()
    core.set_order(case[1])
    s = core.sdn()
    probs = []
    n = build(case)
    mode = case[3]
    key = core.digest(case)
    if mode == "roots":
        w = elements(n)
        before = snapshot(w, hidden=False)
        orig_ids = set(id(o) for o in w.pool)
        nclones = 0
        # views of the reference sets and of the instances' pins taken before any clone is made
        ref_views = [(w[i], w[i].references) for i in range(len(w)) if w.kind[i] == "D"]
        pin_views = [(w[i], w[i].pins) for i in range(len(w)) if w.kind[i] == "X"]
        for i in range(len(w)):
            o, k = w[i], w.kind[i]
            tag = "%s:%s" % (k, case[2])
            try:
                c = o.clone()
            except Exception as ex:
                probs.append(("clone-raised:%s:%s" % (type(ex).__name__, tag), repr(ex)[:200]))
                continue
            nclones += 1
            m = {}
            pair_up(o, c, m, probs, tag)
            verify(m, probs, tag, k)
            # identity sets disjoint
            if any(a is b for a, b in m.values()):
                probs.append(("copy-shares-element-with-original:" + tag, ""))
            if k == "N":
                cw = elements(c)
                image = set(id(b) for a, b in m.values())
                for j in range(len(cw)):
                    if id(cw[j]) not in image:
                        probs.append(("copy-not-self-contained:%s:%s" % (cw.kind[j], tag),
                                      "an object reachable from the copy is not part of it (%s)" % ("it belongs to the original" if id(cw[j]) in w.index else "stray")))
                        break
                for cl, d in wf.wf_netlist(c):
                    probs.append(("copy-malformed:%s:%s" % (cl, tag), d))
                probs += query_agreement(n, c, m, tag)
            # the source is unchanged apart from the documented reference-set additions.  The same World is
            # snapshotted again: objects that became reachable (cloned instances registered with outside
            # definitions) are appended, so the indices of the original objects do not move.
            nb = len(before)
            after = snapshot(w, hidden=False)
            image = set(id(b) for a, b in m.values())
            for j, (x, y) in enumerate(zip(before, after[:nb])):
                if x == y:
                    continue
                if x[0] == "D" and x[:5] == y[:5] and x[6:] == y[6:]:
                    added = [r for r in y[5] if r not in x[5]]
                    lost = [r for r in x[5] if r not in y[5]]
                    if not lost and all(r >= nb and id(w[r]) in image and w.kind[r] == "X" and w[r]._reference is w[j] for r in added):
                        continue  # cloned instances registered with a definition outside the clone: documented
                probs.append(("source-changed-by-clone:%s" % tag, "%s -> %s" % (x, y)))
                break
            for d_, view in ref_views:
                if sorted(map(id, view)) != sorted(map(id, d_.references)):
                    probs.append(("held-reference-view-out-of-step:%s" % tag, "a view of %s.references taken before the clone lists %d, the cell %d" % (d_.name, len(view), len(d_.references))))
                    break
            for x_, view in pin_views:
                if [id(p) for p in view] != [id(p) for p in x_.pins]:
                    probs.append(("held-pins-view-out-of-step:%s" % tag, "instance %s" % x_.name))
                    break
            # undo the documented side effect so that the next root starts from the same source
            for a, b in m.values():
                if kind_of(b) == "X" and b._reference is not None and id(b._reference) in w.index and id(b) not in orig_ids:
                    b._reference._references.discard(b)
            del w.pool[nb:], w.kind[nb:]
            w.index = {id(o): q for q, o in enumerate(w.pool)}
        return {"key": key, "nontrivial": True, "outcome": "roots", "problems": list(dict.fromkeys(probs)), "transitions": nclones}
    # ---- independence under edit tails
    tail, side = case[4], case[5]
    c = n.clone()
    edited, other = (c, n) if side == "copy" else (n, c)
    ow = elements(other)
    fp = snapshot(ow, hidden=False)
    table = dict(edits())
    applied = 0
    for name in tail:
        try:
            with core.quiet():
                table[name](edited)
            applied += 1
        except (StopIteration, AssertionError, ValueError, KeyError, AttributeError, IndexError):
            pass  # edit not applicable to this design (or refused): nothing to observe
    if snapshot(elements(other), hidden=False)[:len(fp)] != fp:
        probs.append(("edit-shows-in-the-other-netlist:%s:on-%s" % ("+".join(tail), side), "fingerprint of the untouched netlist changed"))
    return {"key": key, "nontrivial": applied > 0, "outcome": "tail", "problems": probs, "transitions": 1 + applied}


def query_agreement(n, c, m, tag):
    """flat and hierarchical wildcard queries on the copy are the images of those on the original."""
    s = core.sdn()
    probs = []
    img = {ida: id(b) for ida, (a, b) in m.items()}
    for fn in (s.get_libraries, s.get_definitions, s.get_instances, s.get_ports, s.get_pins, s.get_cables, s.get_wires):
        try:
            a = sorted(img.get(id(x), -1) for x in fn(n))
            b = sorted(id(x) for x in fn(c))
        except Exception as ex:
            probs.append(("query-raised-on-copy:%s:%s" % (fn.__name__, tag), repr(ex)[:100]))
            continue
        if a != b:
            probs.append(("query-differs-on-copy:%s:%s" % (fn.__name__, tag), "%d vs %d results" % (len(a), len(b))))
    def chain(h):
        out = []
        while h is not None:
            out.append(id(h.item))
            h = h.parent
        return tuple(out)
    for fn in (s.get_hinstances, s.get_hports, s.get_hpins, s.get_hcables, s.get_hwires):
        a = sorted(tuple(img.get(i, -1) for i in chain(h)) for h in fn(n, recursive=True))
        b = sorted(chain(h) for h in fn(c, recursive=True))
        if a != b:
            probs.append(("query-differs-on-copy:%s:%s" % (fn.__name__, tag), "%d vs %d results" % (len(a), len(b))))
    # exact lookups by name and by identifier, from every parent (this is where an un-indexed clone shows)
    def scopes(root):
        yield root, "get_libraries", list(root.libraries)
        for l in root.libraries:
            yield l, "get_definitions", list(l.definitions)
            for d in l.definitions:
                yield d, "get_ports", list(d.ports)
                yield d, "get_cables", list(d.cables)
                yield d, "get_instances", list(d.children)
    for (pa, fn, kids), (pb, _, _) in zip(scopes(n), scopes(c)):
        for kid in kids:
            for key in (".NAME", "EDIF.identifier"):
                v = kid.get(key)
                if not isinstance(v, str):
                    continue
                a = sorted(img.get(id(x), -1) for x in getattr(pa, fn)(v, key=key))
                b = sorted(id(x) for x in getattr(pb, fn)(v, key=key))
                if a != b:
                    probs.append(("exact-lookup-differs-on-copy:%s:%s:%s" % (fn, key, tag), "%r: %d on the original, %d on the copy" % (v, len(a), len(b))))
                    return probs
    return probs


engine_b.WORKERS[ID] = worker
EXTRAS = ("plain", "unnamed", "top-also-child", "definition-removed", "edif-policy", "odd-shapes", "many-instances")


def cases(tier):
    out = []
    fam = design.family_hier(tier, variants=("plain", "two-libraries", "outside-instance"))
    for desc in fam:
        small = desc[0] in ("K1-chain2", "K8-bus") or sum(desc[1]) <= 1
        if tier != "thorough" and not small:
            continue
        for extra in EXTRAS:
            if extra != "plain" and (desc[2] != "plain" or (tier != "thorough" and sum(desc[1]) > 1)):
                continue
            for order in core.ORDER_VARIANTS:
                out.append((desc, order, extra, "roots"))
    names = [e[0] for e in edits()]
    tails = [(a,) for a in names]
    if tier == "thorough":
        tails += [(a, b) for a in names for b in names]
    for sk in design.SKELETONS:
        if design.SKELETONS[sk][2] == "thorough" and tier != "thorough":
            continue
        nd = len(design.SKELETONS[sk][0])
        firsts = [(0,) * nd, (1,) * nd] if tier != "thorough" else [(0,) * nd, (1,) * nd, (2,) + (1,) * (nd - 1)]
        for first in firsts:
            for variant in ("plain", "two-libraries"):
                for tail in tails:
                    for side in ("copy", "original"):
                        out.append(((sk, first, variant), "asc", "plain", "tail", list(tail), side))
    return out


def run(tier, seed):
    cov = core.Coverage(
        "Engine B: every element of every design is cloned; a parallel walk pairs original and copy and every link "
        "of the copy must be the image of the original's link or cut where it left the cloned sub-tree (no pointer into "
        "the original, reference sets as documented, data deep-copied); netlist copies are additionally checked for "
        "closure, well-formedness and query agreement; the source must be unchanged; then every edit tail on the copy "
        "or the original must leave the other's fingerprint unchanged; transitions = clones + edits")
    found = {}
    deadline = time.time() + (900 if tier == "quick" else 6000)
    cs = cases(tier)
    k = seed % 7
    engine_b.run_cases(ID, cs[k:] + cs[:k], cov, found, deadline, level="clone/" + tier)
    engine_b.finish(cov)
    return cov, found


def replay(case):
    return engine_b.replay_case(case)
