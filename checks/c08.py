"""C08 - uniquify makes every non-leaf instance unique without changing the design (Engine B)."""
import time

from vlib import core, design, elab, engine_b, wf
from vlib.world import World, snapshot
from checks import _hier

ID = "C08"
LEVEL = "model_checking"
ASSUMPTIONS = [
    "input space: the F_hier family (skeletons K1-K9 x every wiring partition per definition x variants), see "
    "coverage.bounds_completed; hierarchy depth <= 3, fan-out <= 2, widths <= 2",
    "the reference elaboration (vlib/elab.py) reads the public API only",
]


def one_round(n, tag, probs):
    """uniquify once with every clause of the property; returns "raised" if it raised, else None."""
    from spydrnet.uniquify import uniquify
    e0 = elab.Elab(n)
    tree0, part0 = e0.tree(), e0.endpoint_partition()
    before_defs = {id(d): d for l in n.libraries for d in l.definitions}
    libs_of = {d.name: d.library for d in before_defs.values()}
    try:
        uniquify(n)
    except Exception as ex:
        probs.append(("uniquify-raised:%s:%s" % (type(ex).__name__, tag), "uniquify raised %r" % (ex,)))
        bad = wf.wf_netlist(n)
        if bad:
            probs.append(("uniquify-raised-and-left-malformed:%s" % tag, str(bad[0])))
        return "raised"
    e1 = elab.Elab(n)
    tree1, part1 = e1.tree(), e1.endpoint_partition()
    if set(tree0) != set(tree1):
        probs.append(("instance-tree-changed:" + tag, "paths before %s after %s" % (sorted(tree0), sorted(tree1))))
    else:
        for p, (dn, leaf) in tree0.items():
            dn1, leaf1 = tree1[p]
            if leaf != leaf1 or (leaf and dn != dn1):
                probs.append(("leaf-type-changed:" + tag, "%s: %s -> %s" % (p, (dn, leaf), (dn1, leaf1))))
    if part0 != part1:
        probs.append(("connectivity-changed:" + tag, "before %s after %s" % (_hier.fmt_part(part0), _hier.fmt_part(part1))))
    for p in e1.instances:
        if len(p) > 1:
            r = p[-1].reference
            if r is not None and not elab.is_leaf_def(r) and len(r.references) != 1:
                probs.append(("non-leaf-still-shared:" + tag, "%s references %s which has %d instances" % (e1.pname(p), r.name, len(r.references))))
    for c, d in wf.wf_netlist(n):
        if "orphan_of_" in d:
            continue   # the orphan instances the variant itself put into the reference sets
        probs.append(("malformed-after-uniquify:%s:%s" % (c, tag), d))
    for l in n.libraries:
        names = [d.name for d in l.definitions if d.name is not None]
        if len(names) != len(set(names)):
            probs.append(("definition-names-not-unique:" + tag, str(names)))
        for d in l.definitions:
            if id(d) not in before_defs:
                base = d.name.split("_sdn_unique_")[0] if d.name else None
                if base not in libs_of or libs_of[base] is not l:
                    probs.append(("new-definition-in-wrong-library:" + tag, "%s in %s" % (d.name, l.name)))
    return None


EDIF_VARIANTS = ("edif-identifiers", "edif-identifiers-taken", "edif-identifiers-long", "edif-identifiers-nameless",
                 "edif-identifiers-long:9", "edif-identifiers-long:99", "edif-identifiers-long:999")


def worker(case):
    probs = []
    variant = case[2] if len(case) > 2 else None
    ad, n = _hier.prepare(case, policy="EDIF" if variant in EDIF_VARIANTS else None)
    s = core.sdn()
    from spydrnet.uniquify import uniquify

    if variant == "orphan-instance":
        # every hierarchical cell is also referenced by an instance that sits in no definition at all (what
        # Instance.clone() or remove_child() leave behind)
        for l in n.libraries:
            for d in list(l.definitions):
                if not elab.is_leaf_def(d) and d is not n.top_instance.reference:
                    s.Instance(name="orphan_of_" + d.name).reference = d
    if variant == "other-policy-in-force":
        # the design was built under DEFAULT; the process default is EDIF while the transformation runs
        core.sdn().namespace_manager.default = "EDIF"
    if variant in EDIF_VARIANTS:
        for l in n.libraries:
            l["EDIF.identifier"] = "ID_" + l.name
            for d in list(l.definitions):
                d["EDIF.identifier"] = "ID_" + d.name
                if variant.startswith("edif-identifiers-long") and not elab.is_leaf_def(d):
                    d["EDIF.identifier"] = "ID_" + d.name + "_" + "x" * (251 - len(d.name))   # 255 characters
                if variant == "edif-identifiers-nameless" and not elab.is_leaf_def(d) and d is not n.top_instance.reference:
                    del d.name
                for el in list(d.ports) + list(d.cables) + list(d.children):
                    el["EDIF.identifier"] = "ID_" + el.name
                if variant == "edif-identifiers-taken" and not elab.is_leaf_def(d) and d is not n.top_instance.reference:
                    # siblings whose *identifiers* equal, up to letter case, the ones uniquify derives
                    for k in range(3):
                        taken_id = "ID_%s_sdn_unique_%d" % (d.name, k)   # spelled as generated, or in lower case
                        l.create_definition(name="other_%s_%d" % (d.name, k))["EDIF.identifier"] = taken_id if k % 2 == 0 else taken_id.lower()
    if variant and variant.startswith("edif-identifiers-long:"):
        # not the first uniquify of the process: the counter behind the generated suffixes is about to gain a digit
        import spydrnet.uniquify as uq
        uq.MOD_NAME_UID = int(variant.split(":")[1])
    if variant == "name-clash":
        # a sibling already carries the name the renaming counter will produce first
        lib = n.libraries[0]
        for d in list(lib.definitions):
            if not elab.is_leaf_def(d) and d is not n.top_instance.reference:
                lib.create_definition(name="%s_sdn_unique_0" % d.name)
    key = _hier.key_of(case, n)
    tag = "%s:%s" % (case[0][0], variant or case[0][2])
    nontriv = _hier.sharing(elab.Elab(n))
    if variant == "cell-outside-any-library":
        # a shared hierarchical cell was taken out of its library (to be moved, say) and not put back: uniquify cannot
        # place a copy next to it; when it gives up, nothing of the attempt stays behind (reference sets included)
        shared = [d for l in n.libraries for d in l.definitions if not elab.is_leaf_def(d) and len(d.references) > 1]
        if not shared:
            return {"key": key, "nontrivial": False, "outcome": "not-applicable", "problems": [], "transitions": 0}
        lib0 = shared[0].library
        lib0.remove_definition(shared[0])
        w = World()
        w.add(n)
        w.add(shared[0])
        w.discover()
        s0 = snapshot(w)
        nobj = len(w)
        try:
            uniquify(n)
            return {"key": key, "nontrivial": True, "outcome": "accepted", "problems": [], "transitions": 1}
        except Exception as ex:
            w.discover()
            if len(w) != nobj or snapshot(w) != s0:
                probs.append(("failed-uniquify-left-traces:%s:%s" % (type(ex).__name__, tag),
                              "uniquify raised %r; %d objects reachable before, %d after, or their state differs" % (ex, nobj, len(w))))
            return {"key": key, "nontrivial": True, "outcome": "raised", "problems": probs, "transitions": 1}
    res = one_round(n, tag, probs)
    if res is not None:
        return {"key": key, "nontrivial": nontriv, "outcome": "raised", "problems": probs, "transitions": 1}
    if variant == "second-round":
        # not from the initial state: definitions named like the next generated names appear, the cells are shared
        # again, and uniquify runs a second time in the same process
        top = n.top_instance.reference
        lib = top.library
        nonleaf = [d for d in list(lib.definitions) if not elab.is_leaf_def(d) and d is not top]
        for d in nonleaf:
            base = d.name.split("_sdn_unique_")[0]
            taken = set(x.name for x in lib.definitions)
            for k in range(8):
                if "%s_sdn_unique_%d" % (base, k) not in taken:
                    lib.create_definition(name="%s_sdn_unique_%d" % (base, k))
        for i, d in enumerate(nonleaf):
            top.create_child(name="again_%d" % i, reference=d)
        # ... also below the first level: a cell gains a second instance of a non-leaf cell it already uses
        for i, d in enumerate(nonleaf):
            inner = next((x.reference for x in d.children if x.reference is not None and not elab.is_leaf_def(x.reference)), None)
            if inner is not None:
                d.create_child(name="again_in_%d" % i, reference=inner)
        res = one_round(n, tag + ":round-2", probs)
        if res is not None:
            return {"key": key, "nontrivial": True, "outcome": "raised", "problems": probs, "transitions": 2}
    # idempotence
    w = World()
    w.add(n)
    s1 = snapshot(w)
    try:
        uniquify(n)
        if snapshot(w) != s1:
            probs.append(("second-uniquify-changed-netlist:" + tag, ""))
    except Exception as ex:
        probs.append(("second-uniquify-raised:" + tag, repr(ex)))
    return {"key": key, "nontrivial": nontriv, "outcome": "ok", "problems": probs, "transitions": 2}


engine_b.WORKERS[ID] = worker


def cases(tier):
    out = []
    for desc in design.family_hier(tier):
        for order in core.ORDER_VARIANTS:
            out.append((desc, order))
    # every sharing shape of a hierarchy up to five levels deep (fixed pass-through wiring)
    for desc in design.shape_family(5 if tier == "thorough" else 4):
        out.append((desc, "asc"))
        if tier == "thorough" or len(desc[1]) <= 3:
            out.append((desc, "asc", "after-refused-edits"))
        if 2 in desc[1] and (tier == "thorough" or len(desc[1]) <= 3):
            out.append((desc, "desc"))
            out.append((desc, "asc", "second-round"))
            out.append((desc, "asc", "edif-identifiers"))
    # pre-existing siblings named like the names uniquify will generate
    for desc in design.family_hier(tier, variants=("plain",)):
        if desc[0] in ("K2-shared", "K6-shared-two-depths", "K7-shared-both"):
            if tier == "thorough" or sum(desc[1]) % 7 == 0:
                out.append((desc, "asc", "name-clash"))
        # definitions reshaped after they were instanced (ports added last-to-first, in front)
        if desc[0] in ("K2-shared", "K8-bus", "K10-wire-only-shared") or (tier == "thorough" and desc[0] in ("K6-shared-two-depths",)):
            out.append((desc, "asc", "late-ports"))
        if desc[0] in ("K2-shared", "K7-shared-both") and (tier == "thorough" or sum(desc[1]) % 11 == 0):
            out.append((desc, "asc", "second-round"))
            out.append((desc, "asc", "edif-identifiers"))
            out.append((desc, "asc", "edif-identifiers-taken"))
            out.append((desc, "asc", "edif-identifiers-long"))
            for digits in ("9", "99", "999"):
                out.append((desc, "asc", "edif-identifiers-long:" + digits))
            out.append((desc, "asc", "edif-identifiers-nameless"))
            out.append((desc, "asc", "other-policy-in-force"))
        if desc[0] in ("K1-chain2", "K2-shared", "K5-chain3") and (tier == "thorough" or sum(desc[1]) % 11 == 0):
            out.append((desc, "asc", "orphan-instance"))
        if desc[0] in ("K2-shared", "K8-bus", "K7-shared-both") and (tier == "thorough" or sum(desc[1]) % 11 == 0):
            out.append((desc, "asc", "after-refused-edits"))
            out.append((desc, "asc", "cell-outside-any-library"))
    return out


def run(tier, seed):
    cov = core.Coverage(
        "Engine B: every design of the F_hier family (all wiring partitions per definition of each skeleton, variants "
        "plain / dangling nets / instance outside the top hierarchy / two libraries / pre-existing clashing names) is "
        "built through the API, elaborated independently, uniquified and elaborated again; states = distinct "
        "canonical inputs; non-trivial = inputs in which some non-leaf definition is instanced more than once below top")
    found = {}
    deadline = time.time() + (900 if tier == "quick" else 6000)
    cs = cases(tier)
    k = seed % 7
    engine_b.run_cases(ID, cs[k:] + cs[:k], cov, found, deadline, level="F_hier/" + tier)
    engine_b.finish(cov)
    return cov, found


def replay(case):
    return engine_b.replay_case(case)
