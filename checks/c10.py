"""C10 - sibling names stay unique; exact-name lookup agrees with a scan (Engine A, two policies)."""
import re
import time

from vlib import core, engine_a, scenarios
from vlib.engine_a import Oracle

ID = "C10"
LEVEL = "model_checking"
ASSUMPTIONS = [
    "naming policy fixed per run before the root is created (docs exclude switching mid-way)",
    "names/identifiers drawn from {a, A, b} / {a, A, b, 1x}; scopes explored one at a time",
    "the policy tag .NS of an orphan root may be *set* (the manager checks compliance and re-indexes the tree); deleting "
    "the tag is not among the documented edits (it leaves the tree without any rule and without name index) and is "
    "not in the alphabet",
    "a refusal by AssertionError/KeyError/TypeError is a structural refusal and is C14's subject; "
    "only ValueError counts as a refusal by the naming rules",
]
KEYS = (".NAME", "EDIF.identifier")
VALUES = ("a", "A", "b", "1x")
_LEGAL = re.compile(r"^(&[0-9A-Za-z_]{1,255}|[A-Za-z][0-9A-Za-z_]{0,254})$")

CHILDREN = {"N": (("L", "libraries", "get_libraries"),),
            "L": (("D", "definitions", "get_definitions"),),
            "D": (("P", "ports", "get_ports"), ("C", "cables", "get_cables"), ("X", "children", "get_instances"))}
PARENT_ATTR = {"L": "netlist", "D": "library", "P": "definition", "C": "definition", "X": "parent"}
LIST_ATTR = {"L": "libraries", "D": "definitions", "P": "ports", "C": "cables", "X": "children"}


def fold(policy, key, v):
    return v.lower() if (policy == "EDIF" and key == "EDIF.identifier") else v


def siblings(w, el, parent):
    k = w.kind[w.idx(el)]
    return [c for c in getattr(parent, LIST_ATTR[k]) if c is not el]


def conflict(policy, w, el_data, el, parent):
    """Would an element carrying el_data conflict with the other children of parent? (scan)"""
    if parent is None:
        return False
    sib = siblings(w, el, parent) if el is not None and w.index.get(id(el)) is not None else None
    return sib


def root_of(el):
    while True:
        up = None
        for attr in ("netlist", "library", "definition", "parent"):
            if hasattr(type(el), attr):
                up = getattr(el, attr)
                break
        if up is None:
            return el
        el = up


def subtree_scopes(el):
    """(children lists) of el and of everything below it, and every element of the subtree."""
    scopes, elems, todo = [], [], [el]
    while todo:
        x = todo.pop()
        elems.append(x)
        for attr in ("libraries", "definitions", "ports", "cables", "children"):
            if hasattr(type(x), attr) and not (attr == "children" and not hasattr(type(x), "ports")):
                kids = list(getattr(x, attr))
                scopes.append(kids)
                if attr != "children":
                    todo += kids
                else:
                    elems += kids
    return scopes, elems


class Model:
    """Reference: what the naming rules say about an edit, from a linear scan of the pre-state."""

    def __init__(self, policy, mixed=False):
        self.policy = policy
        self.mixed = mixed

    def at(self, obj):
        """the model for the tree `obj` lives in: in the mixed scenario the policy is that of the tree's root
        (recorded when the root was created), otherwise the scenario's."""
        if not self.mixed or obj is None:
            return self
        return Model(root_of(obj).get(".NS", "NONE"))   # NONE: the tag was deleted, no rule is in force

    def checked_keys(self):
        return KEYS if self.policy == "EDIF" else (".NAME",)

    def subtree_compliant(self, el):
        """would the subtree under el be legal inside a tree of this policy?"""
        scopes, elems = subtree_scopes(el)
        for x in elems:
            if "EDIF.identifier" in x and isinstance(x["EDIF.identifier"], str) and self.illegal("EDIF.identifier", x["EDIF.identifier"]):
                return False
        for kids in scopes:
            for key in self.checked_keys():
                vals = [fold(self.policy, key, c[key]) for c in kids if key in c and isinstance(c[key], str)]
                if len(vals) != len(set(vals)):
                    return False
        return True

    def clash(self, kind, parent, data, exclude=None):
        if parent is None:
            return False
        for key in self.checked_keys():
            if key not in data or not isinstance(data[key], str):
                continue
            v = fold(self.policy, key, data[key])
            for c in getattr(parent, LIST_ATTR[kind]):
                if c is exclude:
                    continue
                if key in c and fold(self.policy, key, c[key]) == v:
                    return True
        return False

    def illegal(self, key, value):
        return self.policy == "EDIF" and key == "EDIF.identifier" and not _LEGAL.match(value)

    def predict(self, w, ev):
        """'refuse' / 'accept' / None (structurally invalid or not a naming event)."""
        name, args = ev
        a = [engine_a.ops.resolve(w, x) for x in args]
        if ".create_" in name:
            parent, nm = a[0], a[1]
            kind = {"library": "L", "definition": "D", "port": "P", "cable": "C", "child": "X"}[name.split("create_")[1].split(".")[0]]
            data = {}
            if nm is not None:
                data[".NAME"] = nm
            if name.endswith(".props") and a[2] is not None:
                if self.illegal("EDIF.identifier", a[2]):
                    return "refuse"
                data["EDIF.identifier"] = a[2]
            if not data:
                return "accept"
            return "refuse" if self.clash(kind, parent, data) else "accept"
        if ".add_" in name:
            parent, el = a[0], a[1]
            kind = w.kind[w.idx(el)]
            if getattr(el, PARENT_ATTR[kind]) is not None:
                return None
            m = self.at(parent)
            if self.mixed and not m.subtree_compliant(el):
                return "refuse"
            return "refuse" if m.clash(kind, parent, dict(el._data)) else "accept"
        if name in ("element.name=", "element.setitem"):
            el = a[0]
            key, v = (".NAME", a[1]) if name == "element.name=" else (a[1], a[2])
            if v is None:
                return "accept"
            if key not in KEYS:
                return "accept"
            m = self.at(el)
            if m.illegal(key, v):
                return "refuse"
            kind = w.kind[w.idx(el)]
            parent = getattr(el, PARENT_ATTR[kind]) if kind in PARENT_ATTR else None
            return "refuse" if m.clash(kind, parent, {key: v}, exclude=el) else "accept"
        if name == "element.set_ns":
            el, v = a[0], a[1]
            if el.get(".NS") == v:
                return "accept"
            kind = w.kind[w.idx(el)]
            if kind in PARENT_ATTR and getattr(el, PARENT_ATTR[kind]) is not None:
                return "refuse"      # only the root of a tree may change policy
            if v not in ("EDIF", "DEFAULT"):
                return "refuse"
            return "accept" if Model(v).subtree_compliant(el) else "refuse"
        if name in ("element.del_name",):
            return "accept"
        if name in ("element.delitem", "element.pop"):
            return "accept" if a[1] in a[0] else None
        if ".remove_" in name:
            return None if False else "structural"
        return None


class C10Oracle(Oracle):
    def model(self):
        return Model(self.scn.policy, mixed=self.scn.name.startswith("N-MIX"))

    def state(self, w):
        bad = []
        m0 = self.model()
        for i in range(len(w)):
            pk = w.kind[i]
            if pk not in CHILDREN:
                continue
            parent = w[i]
            m = m0.at(parent)
            pol = m.policy
            for ck, lst, getter in CHILDREN[pk]:
                kids = list(getattr(parent, lst))
                origin = "clone" if parent.__dict__.get("_vclone") else "built"
                for key in m.checked_keys():
                    seen = {}
                    for c in kids:
                        if key in c:
                            v = fold(pol, key, c[key])
                            if v in seen:
                                bad.append(("duplicate-%s:%s:%s" % (key, ck, origin), "%s children share %s=%r" % (engine_a.ops._fmt(i), key, v)))
                            seen[v] = c
                    if key == "EDIF.identifier":
                        for c in kids:
                            if key in c and m.illegal(key, c[key]):
                                bad.append(("illegal-identifier:%s" % ck, repr(c[key])))
                for key in KEYS:
                    for v in VALUES:
                        want = [c for c in kids if key in c and fold(pol, key, c[key]) == fold(pol, key, v)]
                        try:
                            got = list(getattr(parent, getter)(v, key=key))
                        except Exception as e:
                            bad.append(("lookup-raised:%s:%s:%s" % (ck, key, origin), "%s %r: %s" % (getter, v, type(e).__name__)))
                            continue
                        if len(got) != len(set(id(x) for x in got)):
                            bad.append(("lookup-duplicate:%s:%s:%s" % (ck, key, origin), "%s %r" % (getter, v)))
                        if set(id(x) for x in got) != set(id(x) for x in want):
                            kindofmiss = "missing" if len(got) < len(want) else "extra"
                            bad.append(("lookup-%s:%s:%s:%s:%s" % (kindofmiss, ck, key, origin, pol),
                                        "%s(%s, %r, key=%r) returned %d element(s), a scan finds %d"
                                        % (getter, engine_a.ops._fmt(i), v, key, len(got), len(want))))
        # the same from the roots above the parent: a library or netlist asked for ports / cables /
        # instances by exact name returns the children of *every* definition below it
        for i in range(len(w)):
            if w.kind[i] not in "NL":
                continue
            root = w[i]
            pol = m0.at(root).policy
            defs = [d for l in (root.libraries if w.kind[i] == "N" else [root]) for d in l.definitions]
            for ck, lst, getter in CHILDREN["D"]:
                for v in VALUES[:3]:
                    want = set(id(c) for d in defs for c in getattr(d, lst) if ".NAME" in c and c[".NAME"] == v)
                    try:
                        got = [id(x) for x in getattr(root, getter)(v)]
                    except Exception as e:
                        bad.append(("lookup-raised:%s:from-%s" % (ck, w.kind[i]), "%s %r: %s" % (getter, v, type(e).__name__)))
                        continue
                    if len(got) != len(set(got)) or set(got) != want:
                        bad.append(("lookup-from-above-differs:%s:from-%s:%s" % (ck, w.kind[i], pol),
                                    "%s(%s, %r) returned %d element(s), a scan over all definitions finds %d" % (getter, engine_a.ops._fmt(i), v, len(got), len(want))))
        return bad

    def pre(self, w, ev):
        tok = self.model().predict(w, ev)
        # origin of the naming scope the event acts in (hand-built or produced by clone)
        a0 = engine_a.ops.resolve(w, ev[1][0]) if ev[1] else None
        parent = a0
        if ev[0].startswith("element.") and a0 is not None:
            parent = getattr(a0, PARENT_ATTR.get(w.kind[w.idx(a0)], "parent"), None)
        self.origin = "clone" if parent is not None and parent.__dict__.get("_vclone") else "built"
        # exact lookups asked now and read only after the event: what comes out agrees with a scan made then
        self.pending = []
        m0 = self.model()
        for i in range(len(w)):
            if w.kind[i] not in CHILDREN:
                continue
            for ck, lst, getter in CHILDREN[w.kind[i]]:
                for v in VALUES[:2]:
                    try:
                        self.pending.append((i, ck, lst, getter, v, getattr(w[i], getter)(v)))
                    except Exception:
                        pass
        return tok

    def step(self, w, ev, outcome, token):
        return self.late_reads(w, ev) + self.step_naming(w, ev, outcome, token)

    def late_reads(self, w, ev):
        bad = []
        for i, ck, lst, getter, v, gen in getattr(self, "pending", ()):
            parent = w[i]
            want = set(id(c) for c in getattr(parent, lst) if ".NAME" in c and c[".NAME"] == v)
            try:
                got = [id(x) for x in gen]
            except Exception as e:
                bad.append(("late-read-raised:%s:%s" % (ck, type(e).__name__), "%s(%r) asked before %s, read after it" % (getter, v, ev[0])))
                continue
            if set(got) != want or len(got) != len(set(got)):
                bad.append(("late-read-differs:%s:%s" % (ck, getter), "%s(%s, %r) asked before %s and read after it gives %d element(s), a scan finds %d"
                            % (getter, engine_a.ops._fmt(i), v, ev[0], len(got), len(want))))
        self.pending = []
        return bad

    def step_naming(self, w, ev, outcome, token):
        if token in (None, "structural"):
            return []
        refused_by_naming = outcome == ("raised", "ValueError")
        if outcome[0] == "raised" and not refused_by_naming:
            return []  # structural refusal (AssertionError ...): C14
        if token == "accept" and refused_by_naming:
            return [("refused-without-cause:" + self.origin, "%s refused with ValueError although no sibling conflicts and the identifier is legal" % ev[0])]
        if token == "refuse" and outcome[0] == "ok":
            return [("conflicting-edit-accepted:" + self.origin, "%s accepted although it creates a duplicate / illegal identifier" % ev[0])]
        return []

    def nontrivial(self, w, ev, outcome):
        return True


engine_a.ORACLES[ID] = C10Oracle


def run(tier, seed):
    cov = core.Coverage(
        "Engine A per naming scope (libraries, definitions, ports, cables, instances) x policy (DEFAULT, EDIF): BFS "
        "over create/add/remove/bulk-remove/re-add/rename/identifier set-delete-pop/name deletion/clone; the "
        "canonical state includes the name index's hidden tables; every transition is compared with a scan-based "
        "prediction (refused iff duplicate or illegal) and in every state each exact lookup is compared with a scan; "
        "non-trivial = distinct states")
    found = {}
    deadline = time.time() + (900 if tier == "quick" else 6000)
    scns = scenarios.naming_scenarios()
    k = seed % len(scns)
    for scn in scns[k:] + scns[:k]:
        engine_a.explore(ID, scn, tier, cov, found, deadline)
    # netlists built by the readers, and their clones
    t0 = time.time()
    rcs = reader_cases()
    nq = 0
    for case, r in zip(rcs, core.pimap(engine_b._call, [(ID, c) for c in rcs], 1)):
        nq += r["transitions"]
        for sig, what in r.get("problems", ()):
            f = found.get(sig)
            if f is None:
                found[sig] = {"count": 1, "what": what, "case": {"engine": "B", "worker": ID, "case": case}}
            else:
                f["count"] += 1
    cov.add("transitions", nq)
    cov.add("evaluations", nq)
    cov.add("traces_validated_against_impl", nq)
    cov["bounds_completed"]["reader-built"] = {"netlists": len(rcs), "lookups": nq, "wall_s": round(time.time() - t0, 2)}
    return cov, found


# ------------------------------------------------------------------ netlists built by the readers (and their clones)
def reader_sources():
    from vlib import fdesigns
    out = []
    for b in fdesigns.BASES:
        out.append(("edif", b, False))
        out.append(("edif", b, True))
    for alt in (False, True, "late"):
        out.append(("verilog", "base", alt))
    for b in ("B1", "B2", "B4", "B5", "B6", "B7"):
        out.append(("eblif", b, None))
    return out


def boundary_worker(case):
    """identifiers at the documented length limits (255 characters, 256 with a leading &), in every scope of an
    EDIF-policy netlist: accepted exactly when legal; a legal one is found by lookup and blocks its case variant."""
    _, kind, order = case
    core.reset_world()
    core.set_order(order)
    s = core.sdn()
    s.namespace_manager.default = "EDIF"
    n = s.Netlist(name="n")
    lib = n.create_library(name="l")
    d = lib.create_definition(name="d")
    make = {"L": lambda: n.create_library(), "D": lambda: lib.create_definition(), "P": lambda: d.create_port(),
            "C": lambda: d.create_cable(), "X": lambda: d.create_child()}[kind]
    parent, getter = {"L": (n, "get_libraries"), "D": (lib, "get_definitions"), "P": (d, "get_ports"),
                      "C": (d, "get_cables"), "X": (d, "get_instances")}[kind]
    probs = []
    nq = 0
    for ident in ("x" * 255, "x" * 256, "&" + "x" * 255, "&" + "x" * 256, "&", "x", "&" + "1" * 254, "X" * 254 + "y"):
        legal = bool(_LEGAL.match(ident))
        el = make()
        nq += 1
        try:
            el["EDIF.identifier"] = ident
            accepted = True
        except ValueError:
            accepted = False
        what = "%s%d%s" % ("&" if ident.startswith("&") else "", len(ident), "" if legal else ":illegal")
        if accepted != legal:
            probs.append(("%s:boundary:%s:%s" % ("refused-without-cause" if legal else "conflicting-edit-accepted", kind, what),
                          "identifier of %d characters%s" % (len(ident), " starting with &" if ident.startswith("&") else "")))
            continue
        if legal:
            got = list(getattr(parent, getter)(ident.swapcase(), key="EDIF.identifier"))
            if [id(x) for x in got] != [id(el)]:
                probs.append(("lookup-missing:boundary:%s:%s" % (kind, what), "%d found" % len(got)))
            twin = make()
            try:
                twin["EDIF.identifier"] = ident.swapcase()
                probs.append(("conflicting-edit-accepted:boundary-case-variant:%s:%s" % (kind, what), ""))
            except ValueError:
                pass
            # free the identifier again for the next round (the upper-case one of 255 would clash otherwise)
            del el["EDIF.identifier"]
    return {"key": core.digest(case), "nontrivial": True, "outcome": "ok", "problems": probs, "transitions": nq}


def reader_worker(case):
    if case[0] == "boundary":
        return boundary_worker(case)
    """exact lookups against a scan, from every parent of a reader-built netlist and of its clone, for every name and
    identifier present (and their case variants); then one element of every scope is renamed and asked again."""
    from vlib import fdesigns, edif_writer, verilog_writer as vw, eblif_writer as ew
    from checks import c05, c06, c18
    _, fmt, which, opt, cloned, order = case
    core.reset_world()
    core.set_order(order)
    if fmt == "edif":
        n = c05.parse_text(edif_writer.render(fdesigns.BASES[which](), rich=bool(opt)))
    elif fmt == "verilog":
        n = c06.parse_text(vw.render(c06.base_vad(), alt=opt))
    else:
        n = c18.parse_text(ew.render(c18.base(which)))
    origin = "reader:%s" % fmt
    if cloned:
        n = n.clone()
        origin += ":clone"
    pol = n.get(".NS", "NONE")
    probs = []
    nq = 0

    def judge(phase):
        nonlocal nq
        for parent, lst, getter in [(n, "libraries", "get_libraries")] + [(l, "definitions", "get_definitions") for l in n.libraries] + \
                [(d, a, g) for l in n.libraries for d in l.definitions for a, g in (("ports", "get_ports"), ("cables", "get_cables"), ("children", "get_instances"))]:
            kids = list(getattr(parent, lst))
            for key in KEYS:
                vals = set()
                for c in kids:
                    v = c.get(key)
                    if isinstance(v, str):
                        vals |= {v, v.swapcase()}
                for v in sorted(vals):
                    if any(ch in v for ch in "*?["):
                        continue   # such a value is a wildcard pattern for the query functions (C13)
                    want = [c for c in kids if key in c and fold(pol, key, c[key]) == fold(pol, key, v)]
                    nq += 1
                    try:
                        got = list(getattr(parent, getter)(v, key=key))
                    except Exception as e:
                        probs.append(("lookup-raised:%s:%s:%s" % (lst, key, origin), "%s %r: %s" % (getter, v, type(e).__name__)))
                        continue
                    if sorted(map(id, got)) != sorted(map(id, want)):
                        kindofmiss = "missing" if len(got) < len(want) else "extra"
                        probs.append(("lookup-%s:%s:%s:%s:%s%s" % (kindofmiss, lst[0].upper(), key, origin, pol, phase),
                                      "%s(%r, key=%r) returned %d element(s), a scan finds %d" % (getter, v, key, len(got), len(want))))
                if key in Model(pol).checked_keys():
                    seen = {}
                    for c in kids:
                        if isinstance(c.get(key), str):
                            f = fold(pol, key, c[key])
                            if f in seen:
                                probs.append(("duplicate-%s:%s:%s" % (key, lst, origin), "%r twice" % (c[key],)))
                            seen[f] = c
    def from_above(phase):
        # definitions by exact name from the netlist and from the list of its libraries (both orders): a cell name is
        # unique per library only; ports / cables / instances by name from the netlist: every definition's
        nonlocal nq
        libs = list(n.libraries)
        for root, rname in ((n, "netlist"), (libs, "libraries"), (list(reversed(libs)), "libraries-reversed")):
            for getter, kids in (("get_definitions", [dd for l in libs for dd in l.definitions]),
                                 ("get_ports", [x for l in libs for dd in l.definitions for x in dd.ports]),
                                 ("get_cables", [x for l in libs for dd in l.definitions for x in dd.cables]),
                                 ("get_instances", [x for l in libs for dd in l.definitions for x in dd.children])):
                for v in sorted(set(k.name for k in kids if isinstance(k.name, str) and not any(ch in k.name for ch in "*?["))):
                    want = sorted(id(k) for k in kids if k.name == v)
                    nq += 1
                    got = sorted(id(x) for x in getattr(s_, getter)(root, v))
                    if got != want:
                        probs.append(("lookup-from-above-differs:%s:from-%s:%s%s" % (getter, rname, origin, phase),
                                      "%s(%s, %r): %d element(s), a scan over all libraries finds %d" % (getter, rname, v, len(got), len(want))))
    s_ = core.sdn()
    judge("")
    from_above("")
    # a rename in every scope (to a fresh name), then again
    for l in n.libraries:
        for d in l.definitions:
            for grp in (d.ports, d.cables, d.children):
                for c in list(grp)[:1]:
                    if c.name is not None:
                        c.name = c.name + "_renamed"
            break
    judge(":after-renames")
    from_above(":after-renames")
    return {"key": core.digest(case), "nontrivial": True, "outcome": "ok", "problems": list(dict.fromkeys(probs)), "transitions": nq}


from vlib import engine_b  # noqa: E402
engine_b.WORKERS[ID] = reader_worker


def reader_cases():
    return [("reader", fmt, which, opt, cloned, order) for fmt, which, opt in reader_sources() for cloned in (False, True)
            for order in core.ORDER_VARIANTS] + [("boundary", kind, "asc") for kind in "LDPCX"]


def replay(case):
    if case.get("engine") == "B":
        return engine_b.replay_case(case)
    return engine_a.replay_case(case)
