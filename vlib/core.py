"""Driver shared by all checks: process set-up, the set-order seam, world reset,
parallel map, evidence / replay / known-findings plumbing.

Everything here is outside the repository; spydrnet is imported from REPO through sys.path so a
check always sees the current working tree.
"""
import gc
import hashlib
import io
import json
import multiprocessing
import os
import shutil
import sys
import tempfile
import time
import contextlib

VERIF = os.path.dirname(os.path.dirname(os.path.abspath(__file__)))
REPO = os.environ.get("VERIF_REPO", "/repo")
if REPO not in sys.path:
    sys.path.insert(0, REPO)
sys.dont_write_bytecode = True

ORDER_VARIANTS = ("asc", "desc")

_state = {"serial": 0, "order": "asc", "installed": False, "scratch": None}


# ------------------------------------------------------------------ import + seam
def _install_line_audit(path):
    """VERIF_COV=<dir>: record every line of the library that any check executes (sys.monitoring, each location
    reported once and then disabled) - an audit tool (tools/covaudit.py), not part of any verdict."""
    import sys
    mon = sys.monitoring
    tool = mon.COVERAGE_ID
    try:
        mon.use_tool_id(tool, "verif-audit")
    except ValueError:
        return
    prefix = os.path.join(REPO, "spydrnet")
    out = open(os.path.join(path, "lines.%d" % os.getpid()), "a", buffering=1)
    state = {"pid": os.getpid(), "out": out}

    def on_line(code, lineno):
        fn = code.co_filename
        if fn.startswith(prefix):
            if state["pid"] != os.getpid():   # forked worker: own file
                state["pid"] = os.getpid()
                state["out"] = open(os.path.join(path, "lines.%d" % os.getpid()), "a", buffering=1)
            state["out"].write("%s:%d\n" % (fn[len(REPO) + 1:], lineno))
        return mon.DISABLE

    mon.register_callback(tool, mon.events.LINE, on_line)
    mon.set_events(tool, mon.events.LINE)


def sdn():
    """Import spydrnet (once) with plugin discovery closed and the seam installed."""
    if os.environ.get("VERIF_COV") and not _state.get("audit"):
        _state["audit"] = True
        _install_line_audit(os.environ["VERIF_COV"])
    import spydrnet

    if not _state["installed"]:
        import spydrnet.uniquify, spydrnet.flatten, spydrnet.clone  # noqa: F401
        import spydrnet.compare.compare_netlists  # noqa: F401
        # readers/composers import their sub-modules lazily: load them now so that the snapshot of
        # module-level globals does not mistake a first import for residue
        import spydrnet.parsers.edif.parser, spydrnet.parsers.verilog.parser  # noqa: F401
        import spydrnet.parsers.eblif.eblif_parser, spydrnet.parsers.primitive_library_reader  # noqa: F401
        import spydrnet.composers.edif.composer, spydrnet.composers.verilog.composer  # noqa: F401
        import spydrnet.composers.eblif.eblif_composer  # noqa: F401
        assert spydrnet.get_active_plugins() == {}, "a .spydrnet plugin config is being picked up"
        install_seam()
    return spydrnet


def install_seam():
    """Deterministic __hash__ for every netlist object (DESIGN 3.4).

    The serial is handed out at the first hash() of an object, which is itself a deterministic
    point of the execution.  Variant 'desc' reverses the relative order of any two objects.
    """
    import spydrnet.ir as ir

    BIG = 1 << 20

    def _h(self):
        d = self.__dict__
        s = d.get("_vserial")
        if s is None:
            _state["serial"] += 1
            s = d["_vserial"] = _state["serial"]
        return s if _state["order"] == "asc" else BIG - s

    ir.Element.__hash__ = _h
    # classes defining __eq__ lose the inherited __hash__; OuterPin defines its own from
    # (instance, inner_pin), HRef from its parent chain - both bottom out in Element.__hash__.
    probe = ir.Wire()
    assert hash(probe) in (1, BIG - 1) or "_vserial" in probe.__dict__, "seam not effective"
    for cls in (ir.Netlist, ir.Library, ir.Definition, ir.Port, ir.Cable, ir.Wire, ir.InnerPin,
                ir.Instance):
        o = cls()
        hash(o)
        assert "_vserial" in o.__dict__, "seam not effective for %s" % cls
    _state["installed"] = True
    _state["serial"] = 0


def set_order(order):
    assert order in ORDER_VARIANTS
    _state["order"] = order


def serial_of(obj):
    hash(obj)
    return obj.__dict__.get("_vserial", 0)


# ------------------------------------------------------------------ world reset
_baseline = {}


def _registries():
    from spydrnet.global_state import global_callback, global_service

    regs = {}
    for k, v in vars(global_callback).items():
        if k.startswith("_container_"):
            regs[k] = v
    return regs, global_service._registered_lookups


def capture_baseline():
    """Remember listener/lookup registries as they are right after import."""
    regs, lookups = _registries()
    _baseline["regs"] = {k: list(v) for k, v in regs.items()}
    _baseline["lookups"] = dict(lookups)


def reset_world():
    """Bring every process-wide setting the library keeps back to its import-time value."""
    s = sdn()
    if not _baseline:
        capture_baseline()
    from spydrnet.plugins.namespace_manager import NamespaceManager
    import spydrnet.uniquify as uq
    import spydrnet.flatten as fl

    # The manager's WeakKeyDictionary never lets a netlist die (its values reference the children,
    # which reference the key), and dead worlds share hash values (serials restart) with the next
    # one, so the table degrades badly: the driver empties it.  Consequence: only ONE world is
    # alive (indexed) at a time - finish with a world before building the next.
    s.namespace_manager.namespaces.clear()
    NamespaceManager.default = "DEFAULT"
    s.namespace_manager.__dict__.pop("default", None)  # the readers set it on the instance
    s.namespace_manager.ignore_ns_change = False
    uq.MOD_NAME_UID = 0
    fl.unique_number = 0
    fl.mod_name_uid = 0
    regs, lookups = _registries()
    for k, v in regs.items():
        if v != _baseline["regs"][k]:
            v[:] = _baseline["regs"][k]
    if lookups != _baseline["lookups"]:
        lookups.clear()
        lookups.update(_baseline["lookups"])
    _state["serial"] = 0


def mutable_globals_snapshot():
    """Snapshot of every module-level mutable global of spydrnet.* (DESIGN 3.1) - used to prove
    that the driver owns all process-wide state, and as the C15 residue oracle."""
    snap = {}
    for name, mod in sorted(sys.modules.items()):
        if not (name == "spydrnet" or name.startswith("spydrnet.")) or mod is None:
            continue
        if ".tests" in name:
            continue
        for k, v in sorted(vars(mod).items()):
            if k.startswith("__"):
                continue
            if isinstance(v, (int, str, float, bool, type(None))) and not isinstance(v, type):
                snap[name + ":" + k] = repr(v)
            elif isinstance(v, (list, dict, set)):
                try:
                    if isinstance(v, dict):
                        r = repr(sorted((repr(a), _srepr(b)) for a, b in v.items()))
                    elif isinstance(v, set):
                        r = repr(sorted(_srepr(a) for a in v))
                    else:
                        r = repr([_srepr(a) for a in v])
                except Exception as e:  # pragma: no cover
                    r = "unreprable:" + type(e).__name__
                snap[name + ":" + k] = r
    from spydrnet.plugins.namespace_manager import NamespaceManager

    snap["NamespaceManager.default"] = repr(NamespaceManager.default)
    snap["namespace_manager.default"] = repr(sys.modules["spydrnet"].namespace_manager.default)
    snap["NamespaceManager.policies"] = repr(sorted(NamespaceManager.policies))
    s = sys.modules["spydrnet"]
    snap["namespace_manager.ignore_ns_change"] = repr(s.namespace_manager.ignore_ns_change)
    return snap


def _srepr(v):
    # bound methods / functions / classes: stable names, not addresses
    if hasattr(v, "__func__"):
        return "method:" + v.__func__.__qualname__
    if hasattr(v, "__qualname__"):
        return "callable:" + v.__qualname__
    if isinstance(v, (int, str, float, bool, type(None), tuple)):
        return repr(v)
    if isinstance(v, (list, set, dict)):
        return type(v).__name__ + ":" + str(len(v))
    return "obj:" + type(v).__name__


# ------------------------------------------------------------------ scratch + quiet
def scratch_dir():
    if _state["scratch"] is None or not os.path.isdir(_state["scratch"]):
        base = "/dev/shm" if os.path.isdir("/dev/shm") and os.access("/dev/shm", os.W_OK) else None
        _state["scratch"] = tempfile.mkdtemp(prefix="vsdn_%d_" % os.getpid(), dir=base)
        import atexit

        atexit.register(shutil.rmtree, _state["scratch"], True)
    return _state["scratch"]


@contextlib.contextmanager
def quiet():
    """Silence the readers'/composers' print output."""
    old = sys.stdout
    sys.stdout = io.StringIO()
    try:
        yield
    finally:
        sys.stdout = old


# ------------------------------------------------------------------ parallel map
def nworkers():
    try:
        n = int(os.environ.get("VERIF_WORKERS", "0"))
    except ValueError:
        n = 0
    if n <= 0:
        n = min(16, os.cpu_count() or 1)
    return n


def _init_worker():
    _state["scratch"] = None
    gc.collect()
    gc.freeze()


def pmap(func, items, chunksize=None):
    """Ordered parallel map over a list; results come back in input order, so everything
    derived from them is reproducible.  func must be a module-level function."""
    items = list(items)
    n = nworkers()
    if n <= 1 or len(items) <= 1:
        return [func(x) for x in items]
    sdn()  # import before fork so that workers share it
    if chunksize is None:
        chunksize = max(1, min(256, len(items) // (n * 8) or 1))
    ctx = multiprocessing.get_context("fork")
    with ctx.Pool(n, initializer=_init_worker) as pool:
        return pool.map(func, items, chunksize)


# ------------------------------------------------------------------ small helpers
def digest(obj):
    return hashlib.sha1(repr(obj).encode()).hexdigest()[:16]


def freeze(v):
    """Recursively hashable, order-stable form of user data values."""
    if isinstance(v, dict):
        return ("d",) + tuple(sorted((repr(k), freeze(x)) for k, x in v.items()))
    if isinstance(v, (list, tuple)):
        return (type(v).__name__[0],) + tuple(freeze(x) for x in v)
    if isinstance(v, (set, frozenset)):
        return ("s",) + tuple(sorted(repr(freeze(x)) for x in v))
    if isinstance(v, (int, float, str, bool, type(None))):
        return (type(v).__name__, v)
    return ("o", type(v).__name__, repr(v))


class Violation(dict):
    """property, signature (oracle clause + call site / input feature), what, case (JSON)."""

    def __init__(self, prop, signature, what, case):
        super().__init__(property=prop, signature=signature, what=what, case=case)


class Coverage:
    """Accumulates the evidence counters of one run."""

    def __init__(self, rule):
        self.d = {
            "states": 0,
            "transitions": 0,
            "traces_validated_against_impl": 0,
            "evaluations": 0,
            "distinct_nontrivial": 0,
            "rule": rule,
            "samples": [],
            "exhaustive": True,
            "bounds_completed": {},
            "distinct_outcomes": 0,
            "order_variants": list(ORDER_VARIANTS),
        }

    def __getitem__(self, k):
        return self.d[k]

    def __setitem__(self, k, v):
        self.d[k] = v

    def add(self, k, n=1):
        self.d[k] = self.d.get(k, 0) + n

    def sample(self, s, cap=6):
        if len(self.d["samples"]) < cap:
            self.d["samples"].append(s)


def pimap(func, items, chunksize=None):
    """Ordered, streaming parallel map (generator)."""
    items = list(items)
    n = nworkers()
    if n <= 1 or len(items) <= 1:
        for x in items:
            yield func(x)
        return
    sdn()
    if chunksize is None:
        chunksize = max(1, min(64, len(items) // (n * 8) or 1))
    ctx = multiprocessing.get_context("fork")
    with ctx.Pool(n, initializer=_init_worker) as pool:
        for r in pool.imap(func, items, chunksize):
            yield r
