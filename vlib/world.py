"""Pool of real netlist objects addressed by creation index, identity-level snapshot / canonical
form (DESIGN 3.2) and discovery of objects created as a side effect of an operation."""
from . import core


def kinds():
    s = core.sdn()
    return {
        "N": s.Netlist, "L": s.Library, "D": s.Definition, "P": s.Port, "C": s.Cable,
        "W": s.Wire, "I": s.InnerPin, "O": s.OuterPin, "X": s.Instance,
    }


_KIND_CACHE = {}


def kind_of(obj):
    t = type(obj)
    k = _KIND_CACHE.get(t)
    if k is None:
        for name, cls in kinds().items():
            if isinstance(obj, cls):
                k = name
                break
        else:
            k = "?"
        _KIND_CACHE[t] = k
    return k


class World:
    """All objects a history has ever created, in deterministic creation/discovery order."""

    def __init__(self):
        self.pool = []
        self.index = {}  # id(obj) -> pool index
        self.kind = []
        self.proxies = {}  # (pool idx of instance, pool idx of inner pin) -> the one proxy OuterPin object
        self.held = []     # caller-owned collections built by the seed and kept across the events of a history
        self.views = []    # (owner, attribute, view object obtained at seed time): views the caller keeps

    def add(self, obj):
        i = self.index.get(id(obj))
        if i is None:
            k = kind_of(obj)
            if k == "?":
                return None
            i = len(self.pool)
            self.pool.append(obj)
            self.kind.append(k)
            self.index[id(obj)] = i
        return i

    def idx(self, obj):
        if obj is None:
            return None
        i = self.index.get(id(obj))
        if i is None:
            i = self.add(obj)
        return i

    def proxy(self, x, i):
        """the proxy OuterPin for (instance, inner pin): one object per pair, kept across the events of a
        history, so that state a proxy remembers (its wire) can become stale"""
        key = (x, i)
        if key not in self.proxies:
            s = core.sdn()
            p = s.OuterPin.from_instance_and_inner_pin(self.pool[x], self.pool[i])
            p.__dict__["_vproxy"] = True
            self.proxies[key] = p
        return self.proxies[key]

    def of_kind(self, k):
        return [i for i, kk in enumerate(self.kind) if kk in k]

    def __getitem__(self, i):
        return self.pool[i]

    def __len__(self):
        return len(self.pool)

    # -------------------------------------------------------------- discovery
    def discover(self, extra=()):
        """Append every object reachable from the pool (or from `extra`) that is not yet in it.
        Order: pool order, then per object a fixed field order; sets are sorted by serial."""
        for e in extra:
            self._maybe(e)
        i = 0
        while i < len(self.pool):
            for o in _successors(self.pool[i], self.kind[i]):
                self._maybe(o)
            i += 1

    def _maybe(self, o):
        if o is None:
            return
        if isinstance(o, (list, tuple)):
            for x in o:
                self._maybe(x)
            return
        if id(o) not in self.index:
            self.add(o)


def _successors(o, k):
    if k == "N":
        yield from o._libraries
        yield o._top_instance
    elif k == "L":
        yield o._netlist
        yield from o._definitions
    elif k == "D":
        yield o._library
        yield from o._ports
        yield from o._cables
        yield from o._children
        yield from sorted(o._references, key=core.serial_of)
    elif k == "P":
        yield o._definition
        yield from o._pins
    elif k == "C":
        yield o._definition
        yield from o._wires
    elif k == "W":
        yield o._cable
        yield from o._pins
    elif k == "I":
        yield o._port
        yield o._wire
    elif k == "O":
        yield o._instance
        yield o._inner_pin
        yield o._wire
    elif k == "X":
        yield o._parent
        yield o._reference
        for ip, op in o._pins.items():
            op.__dict__["_vstored"] = True  # was stored on an instance at some point
            yield ip
            yield op


# ------------------------------------------------------------------ snapshot
def _data(o):
    return tuple(sorted((k, core.freeze(v)) for k, v in o._data.items()))


def snap_obj(w, o, k):
    ix = w.idx
    if k == "N":
        return ("N", tuple(ix(x) for x in o._libraries), ix(o._top_instance), _data(o))
    if k == "L":
        return ("L", ix(o._netlist), tuple(ix(x) for x in o._definitions), _data(o))
    if k == "D":
        return ("D", ix(o._library), tuple(ix(x) for x in o._ports),
                tuple(ix(x) for x in o._cables), tuple(ix(x) for x in o._children),
                tuple(sorted(ix(x) for x in o._references)), _data(o))
    if k == "P":
        return ("P", ix(o._definition), tuple(ix(x) for x in o._pins), o._direction.name,
                o._is_downto, o._is_scalar, o._lower_index, _data(o))
    if k == "C":
        return ("C", ix(o._definition), tuple(ix(x) for x in o._wires), o._is_downto,
                o._is_scalar, o._lower_index, _data(o))
    if k == "W":
        return ("W", ix(o._cable), tuple(ix(x) for x in o._pins))
    if k == "I":
        return ("I", ix(o._port), ix(o._wire))
    if k == "O":
        return ("O", ix(o._instance), ix(o._inner_pin), ix(o._wire))
    if k == "X":
        return ("X", ix(o._parent), ix(o._reference),
                tuple((ix(a), ix(b)) for a, b in o._pins.items()), bool(o._is_top_instance),
                _data(o))
    raise AssertionError(k)


def snapshot(w, hidden=True):
    """Identity-level snapshot of all pool objects (+ the namespace manager's hidden tables)."""
    w.discover()
    n = -1
    out = []
    while n != len(w.pool):  # snapshotting may discover (idx adds) - iterate to a fixpoint
        n = len(w.pool)
        out = [snap_obj(w, o, k) for o, k in zip(list(w.pool), list(w.kind))]
        w.discover()
    res = tuple(out)
    if hidden:
        # only a proxy that remembers a wire carries state; a fresh one is as good as none
        prox = tuple(sorted((k, w.index.get(id(p._wire))) for k, p in w.proxies.items() if p._wire is not None))
        # a collection the caller holds that has become a container's own list is a different state (edits of the
        # one show in the other) although nothing differs yet
        alias = []
        for hi, h in enumerate(w.held):
            if isinstance(h, list):
                for i, o in enumerate(w.pool):
                    for attr in ("_libraries", "_definitions", "_ports", "_cables", "_children", "_pins", "_wires"):
                        if getattr(o, attr, None) is h:
                            alias.append((hi, i, attr))
        res = (res, hidden_tables(w) + (prox, tuple(alias)))
    return res


def hidden_tables(w):
    """Content of the namespace manager's per-parent tables, by pool index (DESIGN 3.2)."""
    s = core.sdn()
    nm = s.namespace_manager
    rows = []
    for i, o in enumerate(w.pool):
        if w.kind[i] in "NLD":
            ns = nm.namespaces.get(o)
            if ns is None:
                rows.append((i, None))
                continue
            tabs = []
            for attr in ("namespaces", "edif_namespaces"):
                t = getattr(ns, attr, None)
                if t is None:
                    continue
                for typ, d in sorted(t.items(), key=lambda kv: kv[0].__name__):
                    tabs.append((attr, typ.__name__,
                                 tuple(sorted((repr(k), w.index.get(id(v), -1)) for k, v in d.items()))))
            rows.append((i, type(ns).__name__, tuple(tabs)))
    from spydrnet.plugins.namespace_manager import NamespaceManager

    # process-wide switches of the manager are state as well (a refused call must leave them alone)
    return (tuple(rows), NamespaceManager.default, nm.default, bool(nm.ignore_ns_change))


def describe(w, i):
    if i is None:
        return "None"
    o = w.pool[i]
    k = w.kind[i]
    nm = getattr(o, "_data", {}).get(".NAME") if hasattr(o, "_data") else None
    return "%s%d%s" % (k, i, "(%s)" % nm if nm is not None else "")
