"""Bit-level structure of a netlist the Verilog reader produced, in the format of
verilog_writer.expected()."""
from . import core
from .canon import DIRNAME

ASSIGN_LIB = "SDN_VERILOG_ASSIGNMENT"


def is_primitive_lib(lib):
    return lib.name in ("hdi_primitives",) or any(d.get("VERILOG.primitive") for d in lib.definitions)


def uq(name):
    """IEEE 1364: neither the leading backslash nor the terminating white space is part of an escaped
    identifier - \\cpu3 and cpu3 are the same name."""
    if isinstance(name, str) and name.startswith("\\"):
        return name[1:]
    return name


def extract(n, unescape=False):
    c = _extract(n)
    if unescape:
        c = _unescape(c)
    return c


def _unescape(c):
    ep = lambda e: (e[0],) + tuple(uq(x) if isinstance(x, str) else x for x in e[1:])
    out = {"top": uq(c["top"]), "primitives": {uq(k): [(uq(p), d, w) for p, d, w in v] for k, v in c["primitives"].items()}, "modules": {}}
    for name, m in c["modules"].items():
        out["modules"][uq(name)] = {
            "cables": {uq(k): v for k, v in m["cables"].items()},
            "ctypes": {uq(k): v for k, v in m["ctypes"].items()}, "timescale": m["timescale"],
            "conn": {(uq(k[0]), k[1]): frozenset(ep(e) for e in v) for k, v in m["conn"].items()},
            "insts": {uq(k): (uq(v[0]), v[1], v[2]) for k, v in m["insts"].items()},
            "assigns": sorted([(w, frozenset(((uq(a[0]), a[1]) if a else a, (uq(b[0]), b[1]) if b else b) for a, b in prs)) for w, prs in m["assigns"]], key=repr),
            "ports": [(uq(p), d, w, lo) for p, d, w, lo in m["ports"]], "params": m["params"], "attrs": m["attrs"]}
    return out


def _pname(port):
    """a port's name; a nameless port (positional map on a never-declared module) is called by its position"""
    if port.name is not None:
        return port.name
    return "#%d" % list(port.definition.ports).index(port)


def _extract(n):
    s = core.sdn()
    out = {"modules": {}, "primitives": {}, "top": None}
    t = n.top_instance
    if t is not None and t.reference is not None:
        out["top"] = t.reference.name
    for lib in n.libraries:
        if lib.name == ASSIGN_LIB:
            continue
        if lib.name == "hdi_primitives":
            for d in lib.definitions:
                out["primitives"][d.name] = [(_pname(p), DIRNAME[p.direction.name], len(p.pins)) for p in d.ports]
            continue
        for d in lib.definitions:
            cables, conn, insts, assigns = {}, {}, {}, []
            for c in d.cables:
                cables[c.name] = (len(c.wires), c.lower_index)
                for i, w in enumerate(c.wires):
                    eps = set()
                    for p in w.pins:
                        if isinstance(p, s.OuterPin):
                            x = p.instance
                            if x.reference.library is not None and x.reference.library.name == ASSIGN_LIB:
                                continue
                            ip = p.inner_pin
                            eps.add(("I", x.name, _pname(ip.port), list(ip.port.pins).index(ip)))
                        else:
                            eps.add(("P", p.port.name, list(p.port.pins).index(p)))
                    if eps:
                        conn[(c.name, c.lower_index + i)] = frozenset(eps)
            for x in d.children:
                r = x.reference
                if r.library is not None and r.library.name == ASSIGN_LIB:
                    def side(name):
                        port = next(p for p in r.ports if p.name == name)
                        bits = []
                        for ip in port.pins:
                            w = x.pins[ip].wire
                            bits.append(None if w is None else (w.cable.name, w.cable.lower_index + list(w.cable.wires).index(w)))
                        return tuple(bits)
                    o, i = side("o"), side("i")
                    assigns.append((len(o), frozenset(zip(o, i))))
                    continue
                insts[x.name] = (r.name, dict(x.get("VERILOG.Parameters", {}) or {}), dict(x.get("VERILOG.InlineConstraints", {}) or {}))
            out["modules"][d.name] = {
                "ctypes": {c.name: c.get("VERILOG.CableType") or "wire" for c in d.cables},
                "timescale": d.get("VERILOG.TimeScale"),
                "cables": cables, "conn": conn, "insts": insts, "assigns": sorted(assigns, key=repr),
                "ports": [(p.name, DIRNAME[p.direction.name], len(p.pins), p.lower_index) for p in d.ports],
                "params": dict(d.get("VERILOG.Parameters", {}) or {}), "attrs": dict(d.get("VERILOG.InlineConstraints", {}) or {})}
    return out


def diff(exp, got):
    """first difference: (aspect, message) or None."""
    if exp.get("top") != got.get("top"):
        return ("top", "%r != %r" % (exp.get("top"), got.get("top")))
    if set(exp["modules"]) != set(got["modules"]):
        return ("modules", "%s != %s" % (sorted(exp["modules"]), sorted(got["modules"])))
    for name, e in exp["modules"].items():
        g = got["modules"][name]
        for k in ("ports", "cables", "ctypes", "timescale", "insts", "params", "attrs"):
            if e[k] != g[k]:
                return (k, "%s.%s: expected %r got %r" % (name, k, e[k], g[k]))
        if sorted(e["assigns"], key=repr) != sorted(g["assigns"], key=repr):
            return ("assigns", "%s: expected %r got %r" % (name, e["assigns"], g["assigns"]))
        if e["conn"] != g["conn"]:
            for key in sorted(set(e["conn"]) | set(g["conn"]), key=repr):
                if e["conn"].get(key) != g["conn"].get(key):
                    return ("connectivity", "%s: net bit %s: expected %s got %s" % (name, key, sorted(e["conn"].get(key, ())), sorted(g["conn"].get(key, ()))))
    if exp["primitives"] != got["primitives"]:
        for k in sorted(set(exp["primitives"]) | set(got["primitives"])):
            if exp["primitives"].get(k) != got["primitives"].get(k):
                return ("primitive", "%s: expected %r got %r" % (k, exp["primitives"].get(k), got["primitives"].get(k)))
    return None
