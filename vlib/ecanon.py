"""Pin-set structure of a netlist the EBLIF reader produced (format of eblif_writer.expected)."""
from . import core
from .canon import DIRNAME


def extract(n):
    s = core.sdn()
    top = n.top_instance.reference
    insts = {}
    for x in top.children:
        covers = x.get("EBLIF.output_covers")
        insts[x.name] = (x.reference.name, x.get("EBLIF.type"), dict(x.get("EBLIF.attr", {}) or {}),
                         dict(x.get("EBLIF.param", {}) or {}), tuple(c.strip() for c in covers) if covers is not None else None)
    nets = set()
    for c in top.cables:
        for w in c.wires:
            eps = set()
            for p in w.pins:
                if isinstance(p, s.OuterPin):
                    ip = p.inner_pin
                    eps.add(("I", p.instance.name, ip.port.name, list(ip.port.pins).index(ip)))
                else:
                    eps.add(("P", p.port.name, list(p.port.pins).index(p)))
            if eps:
                nets.add(frozenset(eps))
    ports = {p.name: (DIRNAME[p.direction.name], len(p.pins)) for p in top.ports}
    prim = {}
    for lib in n.libraries:
        if lib is not top.library:
            for d in lib.definitions:
                prim[d.name] = {p.name: (DIRNAME[p.direction.name], len(p.pins)) for p in d.ports}
    return {"insts": insts, "nets": nets, "ports": ports, "primitives": prim, "top": top.name,
            "clock": list(top.get("EBLIF.clock", []) or []),
            "top_lib": top.library.name if top.library else None,
            "leaf": {d.name: d.is_leaf() for lib in n.libraries if lib is not top.library for d in lib.definitions}}


def diff(exp, got, check_prims=True):
    if "clock" in exp and exp["clock"] != got.get("clock"):
        return ("clock", "expected %r got %r" % (exp["clock"], got.get("clock")))
    if exp["ports"] != got["ports"]:
        return ("ports", "expected %r got %r" % (exp["ports"], got["ports"]))
    if set(exp["insts"]) != set(got["insts"]):
        return ("instances", "expected %s got %s" % (sorted(exp["insts"]), sorted(got["insts"])))
    for k, v in exp["insts"].items():
        if v != got["insts"][k]:
            what = "model" if v[0] != got["insts"][k][0] else "data"
            return ("instance-" + what, "%s: expected %r got %r" % (k, v, got["insts"][k]))
    # a net holding a single pin connects nothing: an unconnected pin and a pin alone on a wire are the same
    en = set(x for x in exp["nets"] if len(x) > 1)
    gn = set(x for x in got["nets"] if len(x) > 1)
    exp, got = dict(exp, nets=en), dict(got, nets=gn)
    if exp["nets"] != got["nets"]:
        only_e = [sorted(x) for x in exp["nets"] - got["nets"]]
        only_g = [sorted(x) for x in got["nets"] - exp["nets"]]
        return ("nets", "expected-only %s got-only %s" % (only_e[:3], only_g[:3]))
    if check_prims:
        for name, ports in exp["primitives"].items():
            if got["primitives"].get(name) != ports:
                return ("primitive-ports", "%s: expected %r got %r" % (name, ports, got["primitives"].get(name)))
    for name, ports in exp.get("inferred", {}).items():
        gp = {k: v[1] for k, v in got["primitives"].get(name, {}).items()}
        if gp != ports:
            return ("inferred-black-box-ports", "%s: expected widths %r got %r" % (name, ports, gp))
    return None


def match_nameless(exp, got):
    """exp with its placeholder instance names (<model>@nameless<k>) replaced by the names the reader chose, for
    the first assignment (per model, every permutation) under which diff() finds nothing; exp itself if there are
    no placeholders or no assignment fits (the diff of the identity assignment is then what gets reported)."""
    import itertools
    ph = sorted(n for n in exp["insts"] if "@nameless" in n)
    if not ph:
        return exp
    named = set(exp["insts"]) - set(ph)
    free = sorted(n for n in got["insts"] if n not in named)
    if len(free) != len(ph) or len(set(free)) != len(free):
        return exp
    by_model_ph, by_model_free = {}, {}
    for n in ph:
        by_model_ph.setdefault(exp["insts"][n][0], []).append(n)
    for n in free:
        by_model_free.setdefault(got["insts"][n][0], []).append(n)
    if {k: len(v) for k, v in by_model_ph.items()} != {k: len(v) for k, v in by_model_free.items()}:
        return exp
    models = sorted(by_model_ph)
    for perms in itertools.product(*[itertools.permutations(by_model_free[m]) for m in models]):
        ren = {}
        for m, perm in zip(models, perms):
            ren.update(dict(zip(by_model_ph[m], perm)))
        cand = dict(exp)
        cand["insts"] = {ren.get(k, k): v for k, v in exp["insts"].items()}
        cand["nets"] = set(frozenset((e[0], ren.get(e[1], e[1])) + tuple(e[2:]) if e[0] == "I" else e for e in net) for net in exp["nets"])
        if diff(cand, got) is None:
            return cand
    return exp
