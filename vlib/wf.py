"""Well-formedness invariants, read through the public API only (DESIGN 3.3, 4).

inv_c01 / inv_c02 take a World (pool of objects) and return a list of (clause, detail) problems.
wf_netlist(netlist) builds a pool from one netlist and adds the 'self-contained' clauses.
"""
from . import core
from .world import World, describe


def _count_is(seq, x):
    n = 0
    for y in seq:
        if y is x:
            n += 1
    return n


_CONTAINERS = (
    # container kind, list attribute, child kinds, back-pointer attribute
    ("N", "libraries", "L", "netlist"),
    ("L", "definitions", "D", "library"),
    ("D", "ports", "P", "definition"),
    ("D", "cables", "C", "definition"),
    ("D", "children", "X", "parent"),
    ("P", "pins", "I", "port"),
    ("C", "wires", "W", "cable"),
)


def inv_c01(w):
    """Ownership both ways + pin<->wire both ways, over every pool object."""
    bad = []
    d = lambda o: describe(w, w.idx(o))
    for ck, lst, chk, back in _CONTAINERS:
        for ci in w.of_kind(ck):
            c = w[ci]
            members = list(getattr(c, lst))
            for x in members:
                if _count_is(members, x) != 1:
                    bad.append(("member-twice:%s.%s" % (ck, lst), "%s lists %s %d times" % (d(c), d(x), _count_is(members, x))))
                if getattr(x, back, None) is not c:
                    bad.append(("member-without-backptr:%s.%s" % (ck, lst),
                                "%s lists %s whose .%s is %s" % (d(c), d(x), back, d(getattr(x, back, None)))))
        for xi in w.of_kind(chk):
            x = w[xi]
            p = getattr(x, back)
            if p is not None:
                if w.kind[w.idx(p)] != ck:
                    bad.append(("backptr-wrong-kind:%s.%s" % (chk, back), "%s.%s is %s" % (d(x), back, d(p))))
                    continue
                if _count_is(list(getattr(p, lst)), x) != 1:
                    bad.append(("backptr-without-membership:%s.%s" % (chk, back),
                                "%s.%s is %s but it lists it %d times" % (d(x), back, d(p), _count_is(list(getattr(p, lst)), x))))
    # pins and wires
    for wi in w.of_kind("W"):
        wire = w[wi]
        pins = list(wire.pins)
        for p in pins:
            if _count_is(pins, p) != 1:
                bad.append(("pin-twice-on-wire", "%s lists %s %d times" % (d(wire), d(p), _count_is(pins, p))))
            if p.wire is not wire:
                bad.append(("wire-lists-pin-not-reporting-it", "%s lists %s whose wire is %s" % (d(wire), d(p), d(p.wire))))
    for pi in w.of_kind("IO"):
        p = w[pi]
        if w.kind[pi] == "O" and not _is_stored(p):
            continue  # throw-away proxies / detached outer pins: C02's clause
        wr = p.wire
        if wr is not None:
            n = _count_is(list(wr.pins), p)
            if n != 1:
                bad.append(("pin-reports-wire-not-listing-it", "%s.wire is %s which lists it %d times" % (d(p), d(wr), n)))
    return bad


def _is_stored(op):
    inst = op.instance
    ip = op.inner_pin
    if inst is None or ip is None:
        return False
    try:
        return inst.pins.get(ip) is op
    except Exception:
        return False


def inv_c02(w):
    """Instances mirror their definition (reference sets, one outer pin per inner pin)."""
    s = core.sdn()
    bad = []
    d = lambda o: describe(w, w.idx(o))
    defs = [w[i] for i in w.of_kind("D")]
    for xi in w.of_kind("X"):
        x = w[xi]
        ref = x.reference
        for df in defs:
            isin = x in df.references
            if df is ref and not isin:
                bad.append(("instance-missing-from-reference-set", "%s references %s but is not in its references" % (d(x), d(df))))
            if df is not ref and isin:
                bad.append(("instance-in-foreign-reference-set", "%s is in references of %s but references %s" % (d(x), d(df), d(ref))))
        ops = list(x.pins)
        keys = list(x.pins.keys())
        if ref is None:
            if ops or keys:
                bad.append(("unreferenced-instance-has-pins", "%s has %d pins without a reference" % (d(x), len(ops))))
            continue
        expect = [p for port in ref.ports for p in port.pins]
        if len(keys) != len(expect) or any(_count_is(keys, p) != 1 for p in expect):
            bad.append(("outer-pins-mismatch", "%s has outer pins for %s, definition %s has inner pins %s"
                        % (d(x), [d(k) for k in keys], d(ref), [d(p) for p in expect])))
            continue
        for ip in expect:
            op = x.pins[ip]
            if op.instance is not x or op.inner_pin is not ip:
                bad.append(("outer-pin-misnamed", "%s.pins[%s] names (%s,%s)" % (d(x), d(ip), d(op.instance), d(op.inner_pin))))
            proxy = s.OuterPin.from_instance_and_inner_pin(x, ip)
            if x.pins[proxy] is not op or x.pins.get(proxy) is not op or proxy not in x.pins:
                bad.append(("outer-pin-lookup-by-proxy", "%s lookup by proxy for %s fails" % (d(x), d(ip))))
    for df in defs:
        for x in df.references:
            if x.reference is not df:
                bad.append(("reference-set-member-points-elsewhere", "%s in references of %s but references %s" % (d(x), d(df), d(x.reference))))
    # outer pins that were stored on an instance once and no longer are must be off their wire
    wires = [w[i] for i in w.of_kind("W")]
    for xi in w.of_kind("X"):
        for op in w[xi].pins:
            op.__dict__["_vstored"] = True
    for oi in w.of_kind("O"):
        op = w[oi]
        if not op.__dict__.get("_vstored") or _is_stored(op):
            continue
        if op.wire is not None:
            bad.append(("dropped-outer-pin-still-reports-wire", "%s dropped but wire is %s" % (d(op), d(op.wire))))
        for wr in wires:
            if _count_is(list(wr.pins), op):
                bad.append(("dropped-outer-pin-still-on-wire", "%s dropped but listed by %s" % (d(op), d(wr))))
    return bad


def wf_netlist(netlist, require_references=True):
    """C01+C02 invariants on everything reachable from `netlist`, plus self-containment."""
    w = World()
    w.add(netlist)
    w.discover()
    bad = inv_c01(w) + inv_c02(w)
    d = lambda o: describe(w, w.idx(o))
    s = core.sdn()
    for i in w.of_kind("W"):
        wire = w[i]
        home = wire.cable.definition if wire.cable is not None else None
        for p in wire.pins:
            where = p.instance.parent if isinstance(p, s.OuterPin) and p.instance is not None else (
                p.port.definition if isinstance(p, s.InnerPin) and p.port is not None else None)
            if home is not None and where is not home:
                bad.append(("net-crosses-definitions", "%s of %s holds %s which lives in %s" % (d(wire), d(home), d(p), d(where))))
    for i in range(len(w)):
        o, k = w[i], w.kind[i]
        if k == "L" and o.netlist is not netlist:
            bad.append(("escape:library", "%s reachable but belongs to %s" % (d(o), d(o.netlist))))
        elif k == "D" and (o.library is None or o.library.netlist is not netlist):
            bad.append(("escape:definition", "%s reachable but not in the netlist" % d(o)))
        elif k in "PC" and (o.definition is None or o.definition.library is None or o.definition.library.netlist is not netlist):
            bad.append(("escape:bundle", "%s reachable but its definition is outside" % d(o)))
        elif k == "X":
            if o.parent is None and o is not netlist.top_instance:
                bad.append(("escape:instance", "%s reachable but neither a child nor the top" % d(o)))
            if require_references and o.reference is None:
                bad.append(("instance-without-reference", "%s has no reference" % d(o)))
        elif k == "W" and o.cable is None:
            bad.append(("escape:wire", "%s reachable but has no cable" % d(o)))
        elif k == "I" and o.port is None:
            bad.append(("escape:innerpin", "%s reachable but has no port" % d(o)))
        elif k == "O" and not _is_stored(o):
            bad.append(("escape:outerpin", "%s reachable but not stored on an instance" % d(o)))
    return bad


def held_views(w):
    """a view obtained earlier keeps showing what the container holds now (same members, same order, same objects)."""
    bad = []
    for owner, attr, view in getattr(w, "views", ()):
        now = getattr(owner, attr)
        try:
            a, b = list(view), list(now)
            if hasattr(now, "keys"):
                same = [id(x) for x in a] == [id(x) for x in b] and all(view[k] is now[k] for k in b)
            else:
                same = [id(x) for x in a] == [id(x) for x in b]
        except Exception as ex:
            same = False
        if not same:
            bad.append(("held-view-out-of-step:%s.%s" % (type(owner).__name__, attr), "a view taken before the edits lists %d, the container %d" % (len(list(view)), len(list(now)))))
    return bad


def shared_metadata(netlist):
    """no two elements of a netlist hold one and the same mutable metadata container (dictionary, list, set) in
    their data: an edit of one element's metadata would otherwise silently edit the other's."""
    w = World()
    w.add(netlist)
    w.discover()
    owner = {}
    bad = []
    for i in range(len(w)):
        o = w[i]
        data = getattr(o, "_data", None)
        if data is None:
            continue
        todo = [("", data)]
        while todo:
            path, x = todo.pop()
            if isinstance(x, (dict, list, set)):
                first = owner.setdefault(id(x), (i, path))
                if first[0] != i:
                    bad.append(("metadata-shared:%s%s" % (w.kind[i], w.kind[first[0]]),
                                "%s and %s hold the same %s object at %s / %s" % (
                                    describe(w, i), describe(w, first[0]), type(x).__name__, path or "data", first[1] or "data")))
                    continue
                if isinstance(x, dict):
                    todo.extend(("%s[%r]" % (path, k), v) for k, v in x.items())
                elif isinstance(x, list):
                    todo.extend(("%s[%d]" % (path, k), v) for k, v in enumerate(x))
    return bad
