"""Independent structural-Verilog writer for abstract designs + the bit-level model the reader
must reproduce (shares no code with the repository's composer).

VAD = {"modules": [M...], "top": name}
M   = {"name", "ports": [[name, dir, msb|None, lsb|None]...], "wires": [[name, msb|None, lsb|None]...],
       "insts": [{"name", "module", "conns": [[port|None, expr]...], "positional": bool,
                  "params": {k: v}, "attrs": {k: v|None}}],
       "assigns": [[lhs expr, rhs expr]], "celldefine": bool, "declared": bool (False = never declared),
       "params": {}, "attrs": {}}
expr = list of atoms, MSB first; [] = empty connection
atom = ["net", name] | ["bit", name, i] | ["range", name, hi, lo] | ["c", 0|1|"x"|"X"|"z"|"Z"]
"""

CONST = {0: "\\<const0>", 1: "\\<const1>", "x": "\\<constx>", "X": "\\<constX>", "z": "\\<constz>", "Z": "\\<constZ>"}


def esc(name):
    """identifier as it must appear in the text (escaped identifiers end with a space)."""
    return name + " " if name.startswith("\\") else name


def rng(msb, lsb):
    return "" if msb is None else "[%d:%d] " % (msb, lsb)


def atom_text(a):
    if a[0] == "net":
        return esc(a[1])
    if a[0] == "bit":
        return "%s[%d]" % (esc(a[1]), a[2])
    if a[0] == "range":
        return "%s[%d:%d]" % (esc(a[1]), a[2], a[3])
    return "1'b%s" % a[1]


def expr_text(e):
    if not e:
        return ""
    if len(e) == 1:
        return atom_text(e[0])
    return "{" + ", ".join(atom_text(a) for a in e) + "}"


def attrs_text(attrs, separate=False):
    """one (* ... *) group holding all attributes, or (separate) one group per attribute"""
    if not attrs:
        return ""
    if separate:
        return " ".join("(* %s *)" % (k if v is None else "%s = %s" % (k, v)) for k, v in attrs.items()) + "\n"
    return "(* " + ", ".join(k if v is None else "%s = %s" % (k, v) for k, v in attrs.items()) + " *)\n"


def render_module(m, style="header", comments=False, alt=False):
    o = []
    late = []
    w = o.append
    if m.get("celldefine"):
        w("`celldefine")
    w(attrs_text(m.get("attrs"), bool(alt)) + "module " + esc(m["name"]))
    if m.get("params"):
        w("#(" + ", ".join("parameter %s = %s" % kv for kv in m["params"].items()) + ")")
    dirs = {"in": "input", "out": "output", "inout": "inout"}
    def alias(p):
        return len(p) > 4 and p[4]

    def plist_entry(p, ansi):
        if alias(p):
            if len(p[4]) == 1:
                return ".%s(%s)" % (esc(p[0]).strip(), esc(p[4][0]))
            return ".%s({%s})" % (esc(p[0]).strip(), ", ".join(esc(a) for a in p[4]))
        return "%s %s%s" % (dirs[p[1]], rng(p[2], p[3]), esc(p[0])) if ansi else esc(p[0])

    if style == "ansi":
        w("(" + ",\n ".join(plist_entry(p, True) for p in m["ports"]) + ");")
    else:
        w("(" + ", ".join(plist_entry(p, False) for p in m["ports"]) + ");")
    if alt and style != "ansi":
        # the other spellings of the same declarations: one statement per (direction, range) listing
        # all its ports, a net type after the direction
        groups = {}
        for p in m["ports"]:
            if alias(p):
                for a in p[4]:
                    groups.setdefault((p[1], None, None), []).append(a)
            else:
                groups.setdefault((p[1], p[2], p[3]), []).append(p[0])
        for (d, hi, lo), names in groups.items():
            w("  %s %s%s%s;" % (dirs[d], PORT_VAR.get(d, ""), rng(hi, lo), ", ".join(esc(x) for x in names)))
    else:
        for p in m["ports"]:
            if alias(p):
                # the direction of an aliased header port is declared on the nets behind it
                for a in p[4]:
                    w("  %s %s;" % (dirs[p[1]], esc(a)))
            elif style != "ansi":
                w("  %s %s%s;" % (dirs[p[1]], rng(p[2], p[3]), esc(p[0])))
                if comments:
                    w("  // after a port declaration")
    decl = []
    if alt:
        groups = {}
        for x in m.get("wires", ()):
            if len(x) > 3 and x[3]:
                decl.append("  %s%s %s%s;" % (attrs_text(x[3]), wire_type(x), rng(x[1], x[2]), esc(x[0])))
            else:
                groups.setdefault((wire_type(x), x[1], x[2]), []).append(x[0])
        for (t, hi, lo), names in groups.items():
            decl.append("  %s %s%s;" % (t, rng(hi, lo), ", ".join(esc(x) for x in names)))
    else:
        for x in m.get("wires", ()):
            decl.append("  %swire %s%s;" % (attrs_text(x[3]) if len(x) > 3 and x[3] else "", rng(x[1], x[2]), esc(x[0])))
    if alt != "late":
        o.extend(decl)
    if alt and m.get("celldefine"):
        # simulation code of a primitive: its input/output statements are not ports
        w("  function f;\n    input fx;\n    f = fx;\n  endfunction")
        w("  task t;\n    output ty;\n    begin end\n  endtask")
    if comments:
        w("  /* block comment\n     over two lines: gain * / 2, / * and // and ** / inside **/")
        w("  // a line comment with /* inside and a * / pair")
    for x in m.get("insts", ()):
        head = attrs_text(x.get("attrs"), bool(alt)) + "  " + esc(x["module"])
        if x.get("params") and not alt:
            head += " #(" + ", ".join(".%s(%s)" % kv for kv in x["params"].items()) + ")"
        elif x.get("empty_params"):
            head += " #()"
        head += " " + esc(x["name"])
        sep = ", // first comment\n   // second comment in a row\n   /* and a block */ " if comments == "dense" else ", "
        if x.get("positional"):
            body = sep.join(expr_text(e) for _, e in x["conns"])
        else:
            body = sep.join(".%s(%s)" % (esc(p).strip() if not p.startswith("\\") else esc(p), expr_text(e)) for p, e in x["conns"])
        w("%s (%s);" % (head, body))
        if comments:
            w("  // between instances")
        if alt:
            # parameters given by defparam: the first right behind its instance, the others after all instances
            for n, kv in enumerate((x.get("params") or {}).items()):
                (o if n == 0 else late).append("  defparam %s.%s = %s;" % ((esc(x["name"]),) + kv))
    o.extend(late)
    if alt == "late":
        o.extend(decl)   # nets declared after the instances that use them
    for lhs, rhs in m.get("assigns", ()):
        w("  assign %s = %s;" % (expr_text(lhs), expr_text(rhs)))
    w("endmodule")
    if m.get("celldefine"):
        w("`endcelldefine")
    return "\n".join(o) + "\n"


PORT_VAR = {"in": "wire ", "out": "reg "}
WIRE_TYPES = ("wire", "reg", "tri0", "tri1")


def wire_type(x):
    """net type used for a wire in the other spellings: by shape, so that wires of one shape share a statement."""
    return "tri0" if x[1] is None else "reg" if x[1] - x[2] == 1 else "tri1"


SKIPPED = ("`ifdef NEVER_DEFINED\nmodule ghost (input z);\n  leaf never (.i(z));\nendmodule\n`endif\n\n"
           "primitive udp_x (o, i);\n  output o;\n  input i;\n  table\n    0 : 1;\n    1 : 0;\n  endtable\nendprimitive\n\n")


def render(vad, order=None, style="header", comments=False, alt=False):
    """alt=True: the same design in the other spellings the reader documents: `timescale, an `ifdef
    block of an undefined macro and a UDP (both skipped), comma lists, net types on ports and wires,
    parameters by defparam."""
    mods = [m for m in vad["modules"] if m.get("declared", True)]
    order = order if order is not None else list(range(len(mods)))
    text = "// independent writer\n" if comments else ""
    if alt:
        text += "`timescale 1 ps / 1 ps\n"
    for n, i in enumerate(order):
        if alt and n == 1:
            text += SKIPPED
        text += render_module(mods[i], style, comments, alt) + "\n"
    return text


# ------------------------------------------------------------------ the model
def widths(m):
    """name -> (width, lower) of every declared net (ports and wires) of a module."""
    out = {}
    for p in m["ports"]:
        if len(p) > 4 and p[4]:
            for a in p[4]:
                out[a] = (1, 0, False)
            continue
        out[p[0]] = (1, 0, False) if p[2] is None else (p[2] - p[3] + 1, p[3], True)
    for x in m.get("wires", ()):
        out[x[0]] = (1, 0, False) if x[1] is None else (x[1] - x[2] + 1, x[2], True)
    return out


def expand(e, nets):
    """bits of an expression, MSB first: ("n", net, index) | ("c", v)."""
    bits = []
    for a in e:
        if a[0] == "net":
            wd, lo, _ = nets.get(a[1], (1, 0, False))
            bits += [("n", a[1], lo + k) for k in reversed(range(wd))]
        elif a[0] == "bit":
            bits.append(("n", a[1], a[2]))
        elif a[0] == "range":
            bits += [("n", a[1], k) for k in range(a[2], a[3] - 1, -1)]
        else:
            bits.append(("c", a[1]))
    return bits


def cable_types(m, style="header", alt=False):
    """declared net type per cable of a module ('wire' when the text gives none)."""
    out = {}
    if alt and style != "ansi":
        for p in m["ports"]:
            for a in (p[4] if len(p) > 4 and p[4] else [p[0]]):
                if p[1] in PORT_VAR:
                    out[a] = PORT_VAR[p[1]].strip()
    for x in m.get("wires", ()):
        out[x[0]] = wire_type(x) if alt else "wire"
    return out


def expected(vad, style="header", alt=False):
    """per non-primitive module: cables {name: (width, lower)}, connectivity {(cable, index): set(endpoints)},
    instances {name: (module, params, attrs)}, assigns multiset; per primitive module: ports."""
    mods = {m["name"]: m for m in vad["modules"]}
    out = {"modules": {}, "primitives": {}, "top": vad.get("top")}
    inferred = {}
    for m in vad["modules"]:
        if m.get("celldefine") or not m.get("declared", True):
            continue
        nets = widths(m)
        cables = {k: (v[0], v[1]) for k, v in nets.items()}
        conn = {}
        for p in m["ports"]:
            if len(p) > 4 and p[4]:
                for k, a in enumerate(reversed(p[4])):   # MSB first in the text, pin k = bit k from the LSB end
                    conn.setdefault((a, 0), set()).add(("P", p[0], k))
                continue
            wd, lo, _ = nets[p[0]]
            for k in range(wd):
                conn.setdefault((p[0], lo + k), set()).add(("P", p[0], k))

        def touch(bit):
            if bit[0] == "c":
                cables.setdefault(CONST[bit[1]], (1, 0))
                return (CONST[bit[1]], 0)
            cables.setdefault(bit[1], (1, 0))  # implicit scalar net
            return (bit[1], bit[2])

        insts = {}
        for x in m.get("insts", ()):
            target = mods.get(x["module"])
            declared = target is not None and target.get("declared", True)
            insts[x["name"]] = (x["module"], dict(x.get("params") or {}), dict(x.get("attrs") or {}))
            for pos, (pname, e) in enumerate(x["conns"]):
                bits = list(reversed(expand(e, nets)))  # LSB first
                if declared:
                    tp = target["ports"][pos] if x.get("positional") else next(p for p in target["ports"] if p[0] == pname)
                    pname = tp[0]
                else:
                    if x.get("positional") or pname is None:
                        pname = "#%d" % pos   # positional map: the k-th (nameless) port
                    inf = inferred.setdefault(x["module"], {})
                    inf[pname] = max(inf.get(pname, 0), len(bits), 1)
                for k, b in enumerate(bits):
                    conn.setdefault(touch(b), set()).add(("I", x["name"], pname, k))
        assigns = []
        for lhs, rhs in m.get("assigns", ()):
            lb, rb = list(reversed(expand(lhs, nets))), list(reversed(expand(rhs, nets)))
            # the documented representation fixes which side is which, not a pin order: bit pairs
            assigns.append((len(lb), frozenset(zip((touch(b) for b in lb), (touch(b) for b in rb)))))
        types = cable_types(m, style, alt)
        out["modules"][m["name"]] = {"ctypes": {k: types.get(k, "wire") for k in cables},
                                     "timescale": "1 ps / 1 ps" if alt else None,
                                     "cables": cables, "conn": {k: frozenset(v) for k, v in conn.items()},
                                     "insts": insts, "assigns": sorted(assigns, key=repr),
                                     "ports": [(p[0], p[1], len(p[4]), 0) if len(p) > 4 and p[4] else
                                               (p[0], p[1], 1 if p[2] is None else p[2] - p[3] + 1, 0 if p[2] is None else p[3]) for p in m["ports"]],
                                     "params": dict(m.get("params") or {}), "attrs": dict(m.get("attrs") or {})}
    for m in vad["modules"]:
        if m.get("celldefine"):
            out["primitives"][m["name"]] = [(p[0], p[1], 1 if p[2] is None else p[2] - p[3] + 1) for p in m["ports"]]
    for name, ports in inferred.items():
        out["primitives"][name] = [(p, "undef", wd) for p, wd in ports.items()]
    return out
