"""Independent EDIF 2 0 0 writer for abstract designs (shares no code with the repository's
composer).  Rendering choices are explicit options so that a check can enumerate them all.

Extra AD fields used here: every named thing may carry "id" (EDIF identifier, default: derived
from the name); instances may carry "props": [[name, value], ...] (str / int / bool values).
"""
import itertools
import re

_OK = re.compile(r"^[A-Za-z][A-Za-z0-9_]*$")


def ident(name):
    if _OK.match(name):
        return name
    out = "".join(ch if (ch.isalnum() and ch.isascii()) or ch == "_" else "_" for ch in name)
    if not out[0].isalpha():
        out = "&" + out
    return out


def idof(x):
    return x.get("id") or ident(x["name"])


def cased(s, mode):
    return s.upper() if mode == "upper" else s.lower() if mode == "lower" else s


def namedef(x, always_rename=False, display=None):
    i = idof(x)
    shown = display if display is not None else x["name"]
    if shown != i or always_rename:
        return '(rename %s "%s")' % (i, shown)
    return i


def render(ad, refcase="decl", always_rename=False, libref_same="present", bus=None, comments=False,
           design_case="decl", rich=False, split_nets=False):
    """bus: {(cell, net): (permutation of bit positions, subset kept)} rendering of bus nets.
    rich: the same design with the other constructs of the supported subset around it: a library of leaf
    cells declared (external ...), status blocks in library / cell / view, properties on cells, views, ports
    and nets, integer instance properties spelled (number N), string ones carrying an (owner ...).
    split_nets: a scalar net with several endpoints is declared twice - the first endpoints under its identifier,
    the others, after all other nets of the cell, under the same identifier in the other letter case (identifiers
    compare ignoring case: it is one net)."""
    bus = bus or {}
    o = []
    w = o.append
    w("(edif %s" % namedef({"name": ad.get("name", "n"), "id": ad.get("id")}))
    w(" (edifVersion 2 0 0) (edifLevel 0) (keywordMap (keywordLevel 0))")
    w(' (status (written (timeStamp 2020 1 2 3 4 5) (program "vwriter" (version "1")) (comment "independent writer")))')
    ids = {}
    for lib in ad["libs"]:
        for d in lib["defs"]:
            ids[(lib["name"], d["name"])] = (idof(lib), idof(d))
    for lib in ad["libs"]:
        leafonly = all(not d.get("insts") and not d.get("nets") for d in lib["defs"])
        w(" (%s %s (edifLevel 0) (technology (numberDefinition))" % ("external" if rich and leafonly else "library", namedef(lib, always_rename)))
        if rich:
            w('  (status (written (timeStamp 2021 2 3 4 5 6) (author "a") (program "p" (version "v"))))')
        if comments:
            w('  (comment "library comment")')
        for d in lib["defs"]:
            w("  (cell %s (cellType %s)" % (namedef(d, always_rename), "TIE" if rich and not d.get("insts") and not d.get("nets") and d is lib["defs"][0] else "GENERIC"))
            if rich:
                w('   (status (written (timeStamp 2021 2 3 4 5 7)))')
                w('   (property CELLP (string "on the cell"))')
            w("   (view netlist (viewType NETLIST)")
            w("    (interface")
            pid = {}
            for p in d["ports"]:
                pid[p["name"]] = idof(p)
                dirs = {"in": "INPUT", "out": "OUTPUT", "inout": "INOUT"}
                dr = " (direction %s)" % dirs[p["dir"]] if p["dir"] in dirs else ""
                if rich:
                    dr += ' (property PORTP (integer 4)) (comment "port comment")'
                if p.get("array", p["width"] > 1):
                    lo = p.get("lower", 0)
                    disp = p.get("display") or ("%s[%d:%d]" % (p["name"], lo + p["width"] - 1, lo) if (lo or p.get("range")) else None)
                    w("     (port (array %s %d)%s)" % (namedef(p, always_rename, disp), p["width"], dr))
                else:
                    w("     (port %s%s)" % (namedef(p, always_rename), dr))
            if comments:
                w('     (comment "interface comment")')
            if rich:
                w('     (designator "D1")')
                w('     (property IFP (string "on the interface"))')
            w("    )")
            if rich:
                w('    (status (written (timeStamp 2021 2 3 4 5 8)))')
                w('    (comment "view comment" "second string")')
            if d.get("insts") or d.get("nets"):
                w("    (contents")
                iid = {}
                pmeta = {}
                for x in d.get("insts", ()):
                    iid.setdefault(x["name"], idof(x))   # (a later instance repeating the name is reached by nothing)
                    rl, rc = ids[tuple(x["ref"])]
                    lr = " (libraryRef %s)" % cased(rl, refcase)
                    if x["ref"][0] == lib["name"] and libref_same == "omitted":
                        lr = ""
                    w("     (instance %s (viewRef %s (cellRef %s%s))" % (namedef(x, always_rename), cased("netlist", refcase), cased(rc, refcase), lr))
                    for pn, pv in x.get("props", ()):
                        if isinstance(pv, bool):
                            tv = "(boolean (%s))" % ("true" if pv else "false")
                        elif isinstance(pv, int):
                            tv = ("(number %d)" if rich else "(integer %d)") % pv
                        else:
                            tv = '(string "%s")' % pv + (' (owner "Xilinx")' if rich else "")
                        w("      (property %s %s)" % (namedef({"name": pn}), tv))
                    w("     )")
                    if comments:
                        w('     (comment "between instances")')
                defs_by = {}
                for l2 in ad["libs"]:
                    for d2 in l2["defs"]:
                        defs_by[(l2["name"], d2["name"])] = d2

                def portref(ep):
                    if ep[0] == "P":
                        pd = next(p for p in d["ports"] if p["name"] == ep[1])
                        pn, bit, inst = cased(idof(pd), refcase), ep[2], None
                    else:
                        xd = next(x for x in d["insts"] if x["name"] == ep[1])
                        pd = next(p for p in defs_by[tuple(xd["ref"])]["ports"] if p["name"] == ep[2])
                        pn, bit, inst = cased(idof(pd), refcase), ep[3], cased(iid[ep[1]], refcase)
                    body = "(member %s %d)" % (pn, bit) if pd.get("array", pd["width"] > 1) else pn
                    return "(portRef %s%s)" % (body, " (instanceRef %s)" % inst if inst else "")

                netp = ' (property NETP (string "on the net")) (comment "net comment")' if rich else ""
                late_nets = []
                for net in d.get("nets", ()):
                    lo = net.get("lower", 0)
                    isbus = net.get("array", len(net["bits"]) > 1)
                    if not isbus:
                        eps = net["bits"][0]
                        if split_nets and len(eps) >= 2:
                            h = (len(eps) + 1) // 2
                            w("     (net %s (joined %s)%s)" % (namedef(net, always_rename), " ".join(portref(e) for e in eps[:h]), netp))
                            late_nets.append("     (net %s (joined %s))" % (idof(net).swapcase(), " ".join(portref(e) for e in eps[h:])))
                            continue
                        w("     (net %s (joined %s)%s)" % (namedef(net, always_rename), " ".join(portref(e) for e in eps), netp))
                        continue
                    perm, keep = bus.get((d["name"], net["name"]), (tuple(range(len(net["bits"]))), tuple(range(len(net["bits"])))))
                    for k in perm:
                        if k not in keep:
                            continue
                        nid = "%s_%d_" % (idof(net), lo + k)
                        w('     (net (rename %s "%s[%d]") (joined %s)%s)' % (nid, net["name"], lo + k, " ".join(portref(e) for e in net["bits"][k]), netp))
                o.extend(late_nets)
                w("    )")
            if rich:
                w('    (property VIEWP (boolean (true)))')
            w("   ))")
        w(" )")
    if ad.get("top"):
        tl, tc = ids[tuple(ad["top"])]
        w(" (design %s (cellRef %s (libraryRef %s)))" % (namedef({"name": ad.get("top_name", "top"), "id": ad.get("top_id")}),
                                                       cased(tc, design_case), cased(tl, design_case)))
    w(")")
    return "\n".join(o) + "\n"


def expected(ad, bus=None):
    """Canonical structure (vlib.canon format, ids=True) the reader must produce for render(ad)."""
    bus = bus or {}
    out = {"name": ad.get("name", "n"), "libs": {}, "lib_order": [l["name"] for l in ad["libs"]],
           "top": tuple(ad["top"]) if ad.get("top") else None}
    for lib in ad["libs"]:
        L = out["libs"][lib["name"]] = {"defs": {}, "order": [d["name"] for d in lib["defs"]], "id": idof(lib)}
        for d in lib["defs"]:
            D = L["defs"][d["name"]] = {"ports": [], "insts": {}, "nets": {}, "id": idof(d)}
            for p in d["ports"]:
                arr = p.get("array", p["width"] > 1)
                lo = p.get("lower", 0)
                disp = p.get("display") or ("%s[%d:%d]" % (p["name"], lo + p["width"] - 1, lo) if arr and (lo or p.get("range")) else p["name"])
                D["ports"].append((disp, p["dir"], p["width"], bool(arr), lo if arr else 0, idof(p)))
            for x in d.get("insts", ()):
                props = [{"identifier": ident(pn), "value": pv, **({"original_identifier": pn} if ident(pn) != pn else {})} for pn, pv in x.get("props", ())]
                from . import core
                D["insts"][x["name"]] = (x["ref"][0], x["ref"][1], core.freeze(props), idof(x))
            pdisp = {p["name"]: D["ports"][i][0] for i, p in enumerate(d["ports"])}
            defs_by = {(l2["name"], d2["name"]): d2 for l2 in ad["libs"] for d2 in l2["defs"]}

            def ep(e):
                if e[0] == "P":
                    return ("P", pdisp[e[1]], e[2])
                xd = next(x for x in d["insts"] if x["name"] == e[1])
                rd = defs_by[tuple(xd["ref"])]
                rp = next(p for p in rd["ports"] if p["name"] == e[2])
                arr = rp.get("array", rp["width"] > 1)
                lo = rp.get("lower", 0)
                disp = rp.get("display") or ("%s[%d:%d]" % (rp["name"], lo + rp["width"] - 1, lo) if arr and (lo or rp.get("range")) else rp["name"])
                return ("I", e[1], disp, e[3])

            for net in d.get("nets", ()):
                lo = net.get("lower", 0)
                isbus = net.get("array", len(net["bits"]) > 1)
                if not isbus:
                    D["nets"][net["name"]] = (1, False, 0, (tuple(ep(e) for e in net["bits"][0]),), idof(net))
                    continue
                perm, keep = bus.get((d["name"], net["name"]), (tuple(range(len(net["bits"]))), tuple(range(len(net["bits"])))))
                ks = sorted(k for k in perm if k in keep)
                if not ks:
                    continue
                bits = []
                for k in range(ks[0], ks[-1] + 1):
                    bits.append(tuple(ep(e) for e in net["bits"][k]) if k in ks else ())
                D["nets"][net["name"]] = (len(bits), True, lo + ks[0], tuple(bits), idof(net))
    return out
