"""Abstract designs (plain JSON-able data) and their construction through the public API.

An abstract design:
{"name": str, "top": [lib, cell] | None,
 "libs": [{"name": str, "defs": [
    {"name": str,
     "ports":  [{"name", "dir" in/out/inout/undef, "width", "lower"(0), "array"(width>1), "downto"(True)}],
     "insts":  [{"name", "ref": [lib, cell], "props": {..}}],
     "nets":   [{"name", "lower"(0), "bits": [[endpoint, ...], ...]}]   # one entry per wire, LSB first
    }]}]}
endpoint = ["P", port, bit] | ["I", inst, port, bit]      (bit = position in the port's pin list)
"""
import itertools

from . import core

DIRS = {"in": "IN", "out": "OUT", "inout": "INOUT", "undef": "UNDEFINED"}


def port(name, width=1, direction="in", lower=0, array=None, downto=True):
    return {"name": name, "dir": direction, "width": width, "lower": lower,
            "array": (width > 1) if array is None else array, "downto": downto}


def build_netlist(ad, order=None):
    """Real netlist from an abstract design, through the public API only."""
    s = core.sdn()
    n = s.Netlist(name=ad.get("name", "n"))
    defs = {}
    for lib in ad["libs"]:
        L = n.create_library(name=lib["name"])
        for k, v in lib.get("data", {}).items():
            L[k] = v
        for d in lib["defs"]:
            D = L.create_definition(name=d["name"])
            for k, v in d.get("data", {}).items():
                D[k] = v
            defs[(lib["name"], d["name"])] = D
            if ad.get("build") == "late-ports":
                continue
            for p in d["ports"]:
                P = D.create_port(name=p["name"], direction=getattr(s.Port.Direction, DIRS[p["dir"]]),
                                  is_downto=p.get("downto", True), lower_index=p.get("lower", 0))
                P.create_pins(p["width"])
                if p["width"] == 1:
                    P.is_scalar = not p.get("array", False)
                for k, v in p.get("data", {}).items():
                    P[k] = v
    for lib in ad["libs"]:
        for d in lib["defs"]:
            D = defs[(lib["name"], d["name"])]
            insts = {}
            for i in d.get("insts", ()):
                X = D.create_child(name=i["name"], reference=defs[tuple(i["ref"])])
                for k, v in i.get("props", {}).items():
                    X[k] = v
                insts[i["name"]] = X
        if ad.get("build") == "late-ports":
            # the definitions are reshaped after they were instanced: ports arrive last-to-first,
            # each inserted in front, pins one at a time (instances then hold their outer pins in an
            # order that differs from the definition's port order)
            for d in lib["defs"]:
                D = defs[(lib["name"], d["name"])]
                for p in reversed(d["ports"]):
                    P = s.Port(name=p["name"], direction=getattr(s.Port.Direction, DIRS[p["dir"]]),
                               is_downto=p.get("downto", True), lower_index=p.get("lower", 0))
                    D.add_port(P, position=0)
                    for _ in range(p["width"]):
                        P.create_pin()
                    if p["width"] == 1:
                        P.is_scalar = not p.get("array", False)
    for lib in ad["libs"]:
        for d in lib["defs"]:
            D = defs[(lib["name"], d["name"])]
            insts = {x.name: x for x in D.children}
            ports = {p.name: p for p in D.ports}
            for net in d.get("nets", ()):
                C = D.create_cable(name=net["name"], lower_index=net.get("lower", 0),
                                   is_downto=net.get("downto", True))
                C.create_wires(len(net["bits"]))
                if len(net["bits"]) == 1:
                    C.is_scalar = not net.get("array", False)
                for k, v in net.get("data", {}).items():
                    C[k] = v
                for w, eps in zip(C.wires, net["bits"]):
                    for ep in eps:
                        if ep[0] == "P":
                            w.connect_pin(ports[ep[1]].pins[ep[2]])
                        else:
                            X = insts[ep[1]]
                            ip = next(p for p in X.reference.ports if p.name == ep[2]).pins[ep[3]]
                            w.connect_pin(X.pins[ip])
    if ad.get("top"):
        n.top_instance = defs[tuple(ad["top"])]
        n.top_instance.name = ad.get("top_name", "top")
    if ad.get("extra_top_child"):
        # the top instance is *also* a child of another definition (DESIGN 4)
        lib, cell = ad["extra_top_child"]
        defs[(lib, cell)].add_child(n.top_instance)
    return n


# ------------------------------------------------------------------ partitions
def set_partitions(items):
    """All partitions of a list (Bell number many), blocks in first-element order."""
    items = list(items)
    if not items:
        yield []
        return
    first, rest = items[0], items[1:]
    for p in set_partitions(rest):
        yield [[first]] + p
        for i in range(len(p)):
            yield p[:i] + [[first] + p[i]] + p[i + 1:]


def wirings(endpoints, max_nets=None, allow_dangling_nets=True):
    """Every way to wire a set of endpoints: each partition of the endpoint set, where blocks of
    size one stand once for 'left unconnected' and once (optionally) for 'own net'.  To keep the
    count at Bell(n+1)-ish the singleton blocks are all treated alike per variant."""
    for part in set_partitions(endpoints):
        multi = [b for b in part if len(b) > 1]
        single = [b for b in part if len(b) == 1]
        if max_nets is not None and len(multi) > max_nets:
            continue
        yield multi, single


# ------------------------------------------------------------------ hierarchical family
LEAF1 = {"name": "L1", "ports": [port("i", 1, "in"), port("o", 1, "out")], "insts": [], "nets": []}
LEAF2 = {"name": "L2", "ports": [port("d", 2, "inout")], "insts": [], "nets": []}


def endpoints_of(defn, defs_by_name):
    eps = []
    for p in defn["ports"]:
        for b in range(p["width"]):
            eps.append(["P", p["name"], b])
    for i in defn["insts"]:
        ref = defs_by_name[i["ref"][1]]
        for p in ref["ports"]:
            for b in range(p["width"]):
                eps.append(["I", i["name"], p["name"], b])
    return eps


def nets_from_wiring(multi, single, singles_as_nets, bus2=False):
    """Named 1-wire nets (w0, w1, ...) from a wiring; optionally the first two nets share a
    2-wire cable 'bus'; dangling single-endpoint nets when singles_as_nets."""
    blocks = list(multi) + (list(single) if singles_as_nets else [])
    nets = []
    k = 0
    if bus2 and len(blocks) >= 2:
        nets.append({"name": "bus", "lower": 0, "bits": [blocks[0], blocks[1]]})
        blocks = blocks[2:]
    for b in blocks:
        nets.append({"name": "w%d" % k, "lower": 0, "bits": [b]})
        k += 1
    return nets


# ------------------------------------------------------------------ F_hier
def _nonleaf(name, children, ports=None):
    return {"name": name, "ports": ports if ports is not None else [port("a", 1, "in"), port("y", 1, "out")],
            "insts": [{"name": n, "ref": ["work", r]} for n, r in children], "nets": []}


def _top(children, ports=None):
    return _nonleaf("T", children, ports if ports is not None else [port("p", 1, "in"), port("q", 1, "out")])


SKELETONS = {
    # name: (definitions top-down (non-leaf first), leaves used, tier)
    "K1-chain2": ([_top([("ua", "A")]), _nonleaf("A", [("c", "L1")])], ["L1"], "quick"),
    "K2-shared": ([_top([("u0", "A"), ("u1", "A")]), _nonleaf("A", [("c", "L1")])], ["L1"], "quick"),
    "K3-leaf-two-parents": ([_top([("ua", "A"), ("l", "L1")]), _nonleaf("A", [("c", "L1")])], ["L1"], "quick"),
    "K4-wire-only": ([_top([("ua", "A"), ("l", "L1")]), _nonleaf("A", [])], ["L1"], "quick"),
    "K10-wire-only-shared": ([_top([("u0", "A"), ("u1", "A")]), _nonleaf("A", [])], [], "quick"),
    "K8-bus": ([_top([("ua", "A")], [port("t", 2, "inout")]), _nonleaf("A", [("c", "L2")], [port("b", 2, "inout")])], ["L2"], "quick"),
    "K12-portless": ([_top([("ua", "A")]), _nonleaf("A", [("c", "L1")], [])], ["L1"], "quick"),
    "K5-chain3": ([_top([("ua", "A")]), _nonleaf("A", [("ub", "B")]), _nonleaf("B", [("c", "L1")])], ["L1"], "thorough"),
    "K6-shared-two-depths": ([_top([("ua", "A"), ("ub", "B")]), _nonleaf("A", [("ub", "B")]), _nonleaf("B", [("c", "L1")])], ["L1"], "thorough"),
    "K7-shared-both": ([_top([("u0", "A"), ("u1", "A")]), _nonleaf("A", [("ub", "B")]), _nonleaf("B", [("c", "L1")])], ["L1"], "thorough"),
    "K9-two-children": ([_top([("ua", "A")]), _nonleaf("A", [("c0", "L1"), ("c1", "L1")])], ["L1"], "thorough"),
    "K11-chain4": ([_top([("ua", "A")]), _nonleaf("A", [("ub", "B")]), _nonleaf("B", [("uc", "C")]), _nonleaf("C", [("c", "L1")])], ["L1"], "thorough"),
}
QUICK_SLICE = {"K11-chain4": 250}   # designs of a deep skeleton in the quick tier (default 1500)
LEAVES = {"L1": LEAF1, "L2": LEAF2}
_WIRING_CACHE = {}


def skeleton_wirings(sk):
    """Per non-leaf definition of a skeleton the list of all wirings of its endpoints."""
    if sk not in _WIRING_CACHE:
        defs, leaves, _ = SKELETONS[sk]
        byname = {d["name"]: d for d in defs}
        byname.update({l: LEAVES[l] for l in leaves})
        _WIRING_CACHE[sk] = [list(wirings(endpoints_of(d, byname))) for d in defs]
    return _WIRING_CACHE[sk]


VARIANTS = ("plain", "dangling-nets", "outside-instance", "two-libraries")


def family_hier(tier, variants=VARIANTS):
    """Descriptors (skeleton, wiring indices, variant) of the whole family, simplest first."""
    out = []
    for sk, (defs, leaves, t) in SKELETONS.items():
        ws = skeleton_wirings(sk)
        total = 1
        for w in ws:
            total *= len(w)
        # the deeper skeletons enter the quick tier with a fixed arithmetic slice of their wirings
        # (every wiring in the thorough tier)
        stride = 1 if (t != "thorough" or tier == "thorough") else max(1, total // QUICK_SLICE.get(sk, 1500))
        for lin, idx in enumerate(itertools.product(*[range(len(w)) for w in ws])):
            if stride > 1 and stride < 16 and (sum(i * (k + 1) for k, i in enumerate(idx)) % stride):
                continue
            if stride >= 16 and lin % stride:   # (the weighted sum never reaches a large stride)
                continue
            for v in variants:
                if tier != "thorough" and v != "plain" and sk not in ("K1-chain2", "K2-shared", "K8-bus"):
                    continue
                if stride > 1 and v != "plain":
                    continue
                out.append((sk, idx, v))
    return out


def shape_family(maxlevels=5):
    """Hierarchy *shapes* (the wiring is a fixed pass-through): a chain of k <= maxlevels non-leaf cells below the top,
    each level instancing the next one once (1), twice (2), or once plus the level after next once (3).  All 3^k
    codes for every k: which cells are shared, and at which depth they become shared, in every combination."""
    out = []
    for k in range(1, maxlevels + 1):
        for codes in itertools.product((1, 2, 3), repeat=k):
            out.append(("SHAPE", codes, "plain"))
    return out


def _materialize_shape(codes):
    k = len(codes)
    names = ["T"] + ["N%d" % i for i in range(1, k + 1)]
    defs = []
    for lvl, nm in enumerate(names):
        ports = [port("p", 1, "in"), port("q", 1, "out")] if lvl == 0 else [port("a", 1, "in"), port("y", 1, "out")]
        if lvl < k:
            nxt = names[lvl + 1]
            kids = [("u0", nxt)] + ([("u1", nxt)] if codes[lvl] == 2 else [])
            if codes[lvl] == 3:
                kids.append(("s0", names[lvl + 2] if lvl + 2 <= k else "L1"))
        else:
            kids = [("c", "L1")]
        d = {"name": nm, "ports": ports, "insts": [{"name": n_, "ref": ["work", r_]} for n_, r_ in kids], "nets": []}
        pin_in = lambda r_: "i" if r_ == "L1" else "a"
        pin_out = lambda r_: "o" if r_ == "L1" else "y"
        w0 = [["P", ports[0]["name"], 0]] + [["I", n_, pin_in(r_), 0] for n_, r_ in kids]
        w1 = [["I", kids[0][0], pin_out(kids[0][1]), 0], ["P", ports[1]["name"], 0]]
        d["nets"] = [{"name": "w0", "lower": 0, "bits": [w0]}, {"name": "w1", "lower": 0, "bits": [w1]}]
        defs.append(d)
    return {"name": "n", "top": ["work", "T"], "libs": [{"name": "work", "defs": [dict(LEAF1)] + list(reversed(defs))}],
            "family": "SHAPE", "variant": "plain"}


def materialize(desc):
    sk, idx, variant = desc
    if sk == "SHAPE":
        return _materialize_shape(idx)
    defs, leaves, _ = SKELETONS[sk]
    ws = skeleton_wirings(sk)
    out_defs = []
    for d, wlist, i in zip(defs, ws, idx):
        multi, single = wlist[i]
        nd = dict(d)
        nd["insts"] = [dict(x) for x in d["insts"]]
        nd["nets"] = nets_from_wiring(multi, single, variant == "dangling-nets", bus2=(sk == "K8-bus"))
        out_defs.append(nd)
    leafdefs = [dict(LEAVES[l]) for l in leaves]
    libs = [{"name": "work", "defs": leafdefs + list(reversed(out_defs))}]
    if variant == "outside-instance":
        libs[0]["defs"].append({"name": "Z", "ports": [], "insts": [{"name": "z", "ref": ["work", out_defs[-1]["name"]]}], "nets": []})
    if variant == "two-libraries":
        # leaves move to a primitives library declared *after* the library that uses them
        libs = [{"name": "work", "defs": list(reversed(out_defs))}, {"name": "prims", "defs": leafdefs}]
        for d in libs[0]["defs"]:
            for x in d["insts"]:
                if x["ref"][1] in leaves:
                    x["ref"] = ["prims", x["ref"][1]]
    return {"name": "n", "top": ["work", "T"], "libs": libs, "family": sk, "variant": variant}
