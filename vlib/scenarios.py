"""Scenarios shared by the Engine-A checks (C01, C02, C14, C19): (seed, sub-alphabet, limits).
Every pair of mutators writing the same field appears together in at least one scenario; the
coupling matrix is computed from Op.writes and reported in the evidence."""
from . import seeds
from .engine_a import Scenario, SCENARIOS
from . import ops as _ops


def _valid_proxies_plus_one(w):
    """proxy selectors: every (instance, inner pin of its reference) + one bogus pair."""
    out = []
    bogus = None
    for x in w.of_kind("X"):
        ref = w[x].reference
        for i in w.of_kind("I"):
            port = w[i].port
            if ref is not None and port is not None and port.definition is ref:
                out.append([x, i])
            elif bogus is None:
                bogus = [x, i]
    if bogus:
        out.append(bogus)
    return out

S1 = Scenario(
    "S1-libraries-definitions", seeds.seed_libs,
    ["netlist.create_library", "netlist.add_library", "netlist.remove_library",
     "netlist.remove_libraries_from", "netlist.remove_libraries_from.set", "netlist.libraries=",
     "library.create_definition", "library.add_definition", "library.remove_definition",
     "library.remove_definitions_from", "library.remove_definitions_from.set", "library.definitions=",
     "element.name="],
    limits={"positions": (None, 0), "bulk_max": 2, "names": (None, "a")},
    depth={"quick": 2, "thorough": 3},
    note="cross-netlist moves of libraries and definitions, bulk removal, reorder")

S2 = Scenario(
    "S2-ports-pins", seeds.seed_ports,
    ["definition.create_port", "definition.add_port", "definition.remove_port",
     "definition.remove_ports_from", "definition.remove_ports_from.set", "definition.ports=",
     "port.create_pin", "port.create_pins", "port.add_pin", "port.remove_pin",
     "port.remove_pins_from", "port.remove_pins_from.set", "port.pins="],
    limits={"positions": (None, 0), "bulk_max": 2, "names": (None, "a")},
    depth={"quick": 2, "thorough": 3},
    note="port and pin edits on a definition that already has two instances")

S3 = Scenario(
    "S3-connections", seeds.seed_conn,
    ["wire.connect_pin", "wire.disconnect_pin", "wire.disconnect_pins_from",
     "wire.disconnect_pins_from.set", "wire.pins=", "cable.wires=", "cable.create_wire",
     "cable.add_wire", "cable.remove_wire", "cable.remove_wires_from", "cable.remove_wires_from.set",
     "definition.remove_cable", "definition.add_cable", "definition.cables=", "definition.remove_cables_from",
     "definition.remove_cables_from.set"],
    limits={"positions": (None, 0), "bulk_max": 2, "proxy_pairs": _valid_proxies_plus_one, "names": (None, "a")},
    depth={"quick": 2, "thorough": 3},
    note="connect/disconnect with inner pins, stored outer pins and proxies; wire/cable reorder")

S4 = Scenario(
    "S4-children", seeds.seed_children,
    ["definition.create_child", "definition.create_child.noref", "definition.add_child",
     "definition.remove_child", "definition.remove_children_from",
     "definition.remove_children_from.set", "definition.children=", "instance.reference=",
     "instance.reference=None", "instance.del_reference", "definition.remove_port",
     "port.remove_pin", "netlist.top_instance=", "netlist.top_instance=None", "netlist.set_top_instance.name"],
    limits={"positions": (None, 0), "bulk_max": 2, "names": (None, "a")},
    depth={"quick": 2, "thorough": 3},
    note="children, re-pointing, port removal that implicitly disconnects, top instance")

S5 = Scenario(
    "S5-moves", seeds.seed_moves,
    ["definition.remove_port", "definition.add_port", "definition.remove_cable",
     "definition.add_cable", "definition.remove_child", "definition.add_child",
     "library.remove_definition", "library.add_definition", "wire.connect_pin",
     "wire.disconnect_pin", "instance.reference=None", "instance.reference="],
    limits={"positions": (None,), "bulk_max": 1, "names": (None, "a")},
    depth={"quick": 3, "thorough": 4},
    note="remove an element, add it to another parent, reconnect")

STRUCTURAL = [S1, S2, S3, S4, S5]


def coupling_matrix(scns):
    """field -> mutators writing it -> scenarios containing both members of each pair."""
    table = _ops.build_ops()
    pairs = {}
    missing = []
    names = sorted(set(n for s in scns for n in s.op_names))
    for i, a in enumerate(names):
        for b in names[i + 1:]:
            shared = set(table[a].writes) & set(table[b].writes)
            if not shared:
                continue
            together = [s.name for s in scns if a in s.op_names and b in s.op_names]
            pairs[(a, b)] = together
            if not together:
                missing.append((a, b, sorted(shared)))
    return {"pairs_sharing_a_field": len(pairs), "pairs_covered_together": sum(1 for v in pairs.values() if v),
            "pairs_not_together": ["%s+%s" % (a, b) for a, b, _ in missing][:40]}

S6 = Scenario(
    "S6-instances-from-zero", seeds.seed_c02_zero,
    ["definition.create_port", "definition.add_port", "definition.remove_port", "port.create_pin",
     "port.add_pin", "port.remove_pin", "new.instance", "definition.create_child",
     "instance.reference=", "instance.reference=None", "definition.remove_child",
     "netlist.top_instance=", "netlist.top_instance=None"],
    limits={"positions": (None,), "names": (None,)},
    depth={"quick": 3, "thorough": 4},
    note="instances created after / before the ports they mirror")

S7 = Scenario(
    "S7-child-and-top-of-one-definition", seeds.seed_c02_mix,
    ["definition.create_port", "definition.remove_port", "definition.remove_ports_from",
     "port.create_pin", "port.create_pins", "port.remove_pin", "port.remove_pins_from",
     "instance.reference=", "instance.del_reference", "definition.remove_child",
     "netlist.top_instance=", "netlist.top_instance=None", "wire.connect_pin", "wire.disconnect_pin"],
    limits={"positions": (None,), "names": (None,), "bulk_max": 2, "proxy_pairs": _valid_proxies_plus_one},
    depth={"quick": 2, "thorough": 3},
    note="a child and a top instance of the same definition; edits while connected")

S9 = Scenario(
    "S9-repoint-after-reshape", seeds.seed_repoint,
    ["port.create_pin", "port.add_pin", "definition.ports=", "port.pins=", "definition.create_port",
     "wire.connect_pin", "wire.disconnect_pin", "wire.disconnect_pins_from.held", "instance.reference="],
    limits={"positions": (None, 0), "names": (None,), "counts": (None, 1),
            "proxy_pairs": lambda w: [], "odd_bulk": False},
    depth={"quick": 2, "thorough": 3},
    note="definition reshaped after it was instanced (pin added to a non-last port, ports reordered), then re-pointed")

def _valid_proxies(w):
    return [p for p in _valid_proxies_plus_one(w)][:-1] if _valid_proxies_plus_one(w) else []


S12 = Scenario(
    "S12-pins-across-a-repoint", seeds.seed_repoint,
    ["instance.reference=", "wire.disconnect_pins_from", "wire.disconnect_pins_from.set", "wire.disconnect_pins_from.held",
     "wire.connect_pin", "wire.disconnect_pin", "wire.pins="],
    limits={"positions": (None,), "names": (None,), "bulk_max": 2, "proxy_pairs": _valid_proxies_plus_one, "odd_bulk": False},
    depth={"quick": 2, "thorough": 3},
    note="stored outer pins (hashed at seed time: the caller holds a set of them), proxies and bulk disconnects on both "
         "sides of a re-point: an outer pin is the same object before and after, its (instance, inner pin) key is not")

INSTANCE_SCENARIOS = [S2, S4, S5, S6, S7, S9, S12]

# ---------------------------------------------------------------- naming scopes (C10, C14)
_SCOPE = {
    # kind: (parent kind, create, add, remove, bulk remove)
    "L": ("N", "netlist.create_library", "netlist.add_library", "netlist.remove_library", "netlist.remove_libraries_from"),
    "D": ("L", "library.create_definition", "library.add_definition", "library.remove_definition", "library.remove_definitions_from"),
    "P": ("D", "definition.create_port", "definition.add_port", "definition.remove_port", "definition.remove_ports_from"),
    "C": ("D", "definition.create_cable", "definition.add_cable", "definition.remove_cable", "definition.remove_cables_from"),
    "X": ("D", "definition.create_child.noref", "definition.add_child", "definition.remove_child", "definition.remove_children_from"),
}
_NAMING = {}


def naming_scenarios(with_clone=True):
    if not _NAMING:
        for policy in ("DEFAULT", "EDIF"):
            for kind, (pk, create, add, remove, bulk) in _SCOPE.items():
                name = "N-%s-%s" % (kind, policy)
                opsl = [create, create.replace(".noref", "") + ".props", add, remove, bulk, "element.name=", "element.del_name",
                        "element.setitem", "element.delitem", "element.pop", "clone"]
                _NAMING[name] = Scenario(
                    name, seeds.seed_names(kind), opsl,
                    limits={"positions": (None,), "names": (None, "a", "A", "b"), "counts": (None,),
                            "keys": (".NAME", "EDIF.identifier"), "elem_kinds": kind, "clone_kinds": pk,
                            "bulk_max": 2, "empty_bulk": False},
                    depth={"quick": 2, "thorough": 3}, policy=policy,
                    note="naming scope %s under the %s policy" % (kind, policy))
        _NAMING["N-MIX-EDIF"] = Scenario(
            "N-MIX-EDIF", seeds.seed_mixed_policy,
            ["netlist.add_library", "netlist.remove_library", "library.add_definition", "library.remove_definition",
             "definition.add_port", "definition.remove_port", "element.name=", "element.setitem", "element.delitem",
             "element.set_ns"],
            limits={"positions": (None,), "names": (None, "a"), "keys": ("EDIF.identifier",), "elem_kinds": "NLDPC"},
            depth={"quick": 2, "thorough": 3}, policy="EDIF",
            note="an EDIF-policy netlist extended with orphans built under the DEFAULT policy (compliant and not)")
    return list(_NAMING.values())

S8 = Scenario(
    "S8-data-and-top", seeds.seed_children,
    ["element.name=", "element.del_name", "element.setitem", "element.delitem", "element.pop",
     "netlist.top_instance=", "netlist.top_instance=None", "netlist.set_top_instance", "netlist.set_top_instance.name",
     "definition.create_child", "definition.create_port", "definition.create_cable",
     "definition.create_child.props", "definition.create_port.props", "definition.create_cable.props",
     "library.create_definition.props", "netlist.create_library.props"],
    limits={"positions": (None,), "names": (None, "a"), "keys": (".NAME", "k"), "counts": (None, 1),
            "elem_kinds": "NLDX"},
    depth={"quick": 2, "thorough": 3},
    note="element data edits, compound constructors, top instance")

S10 = Scenario(
    "S10-bundle-attributes", seeds.seed_bundles,
    ["bundle.is_downto=", "bundle.is_scalar=", "bundle.is_array=", "bundle.lower_index=", "port.direction=",
     "port.create_pins", "port.remove_pin", "cable.create_wires", "cable.remove_wire", "port.pins=", "cable.wires="],
    limits={"positions": (None,), "names": (None,)},
    depth={"quick": 2, "thorough": 3},
    note="bundle attribute setters (scalar/array on 1- and 2-wide bundles), pin/wire growth and shrink")

S11 = Scenario(
    "S11-two-netlists", seeds.seed_two_netlists,
    ["netlist.remove_library", "netlist.add_library", "library.remove_definition", "library.add_definition",
     "instance.reference=", "instance.reference=None", "netlist.top_instance=", "netlist.top_instance=None",
     "definition.remove_child", "definition.add_child", "definition.remove_port", "port.create_pin"],
    limits={"positions": (None,), "names": (None,)},
    depth={"quick": 2, "thorough": 3},
    note="two netlists referencing each other's definitions: cross-netlist moves, re-points and top changes")

S13 = Scenario(
    "S13-own-views", seeds.seed_conn,
    [n for n in _ops.build_ops() if n.endswith(".ownview") or n.endswith("=.reversed-ownview")] +
    ["wire.connect_pin", "definition.create_port", "cable.create_wire"],
    limits={"positions": (None,), "names": (None, "a"), "counts": (None, 1), "proxy_pairs": lambda w: [], "odd_bulk": False, "bulk_max": 1},
    depth={"quick": 2, "thorough": 3},
    note="bulk removals and reorder assignments given the live view of the collection they modify")

S14 = Scenario(
    "S14-held-lists", seeds.seed_held_lists,
    ["cable.wires=.held", "port.pins=.held", "cable.create_wire", "port.create_pin", "cable.remove_wire", "port.remove_pin",
     "library.definitions=.held", "library.create_definition", "netlist.libraries=.held", "netlist.create_library",
     "definition.ports=.held", "definition.cables=.held", "definition.children=.held", "definition.create_port",
     "definition.create_cable", "definition.create_child.noref"],
    limits={"positions": (None,), "names": (None,), "counts": (None,)},
    depth={"quick": 3, "thorough": 4},
    note="a list object the caller keeps is assigned to the wires / pins of two bundles, which are then edited")

S15 = Scenario(
    "S15-clones-of-wired-elements", seeds.seed_conn,
    ["clone", "definition.add_child", "definition.add_cable", "definition.add_port", "cable.add_wire", "wire.connect_pin",
     "wire.disconnect_pin", "cable.remove_wire"],
    limits={"positions": (None,), "bulk_max": 1, "proxy_pairs": lambda w: [], "names": (None,), "clone_kinds": "XCWP", "odd_bulk": False},
    depth={"quick": 2, "thorough": 3},
    note="instances, cables, wires and ports that are wired are cloned; the copies are put to use (C01 and C14 only: clone "
         "is not an editing call in the sense of C19)")

S16 = Scenario(
    "S16-clone-then-edit", seeds.seed_c02_mix,
    ["clone", "definition.ports=", "definition.create_port", "port.create_pin", "port.remove_pin", "definition.remove_port",
     "instance.reference="],
    limits={"positions": (None,), "names": (None,), "counts": (None, 1), "clone_kinds": "NLD", "proxy_pairs": lambda w: [], "odd_bulk": False},
    depth={"quick": 2, "thorough": 3},
    note="a netlist / library / definition is cloned (also after its ports were reordered), then the copy's or the "
         "original's definitions are reshaped (C02 only: the copy's instances must mirror the copy's definitions)")

S17 = Scenario(
    "S17-reorder-then-clone", seeds.seed_repoint,
    ["clone", "definition.ports=", "port.pins=", "port.create_pin", "port.add_pin", "instance.reference="],
    limits={"positions": (None, 0), "names": (None,), "counts": (None, 1), "clone_kinds": "NL", "proxy_pairs": lambda w: [], "odd_bulk": False},
    depth={"quick": 2, "thorough": 3},
    note="a definition whose instance is connected on two ports is reshaped (ports reordered, a pin added in front) so that "
         "the instance's pin table and the port order differ; then the netlist / library is cloned")

# positions other than "append" and "in front": negative, past the end, and not an index at all (a float, as
# len(x) / 2 gives): whatever the call does - insert, clamp or raise - the structure stays consistent.  Used by
# C01 / C02 only: what a call that fails with a TypeError leaves in the name tables is outside C14's list of refusals.
_ODD = (None, 0, -1, 7, 0.5)
S18 = [
    Scenario("S18a-odd-positions-ports", seeds.seed_ports,
             ["definition.add_port", "port.add_pin", "definition.remove_port", "port.remove_pin"],
             limits={"positions": _ODD, "names": (None,)}, depth={"quick": 2, "thorough": 3},
             note="add_port / add_pin at negative, out-of-range and non-index positions on a cell with two instances"),
    Scenario("S18b-odd-positions-wires", seeds.seed_conn,
             ["definition.add_cable", "cable.add_wire", "wire.connect_pin", "wire.disconnect_pin", "cable.remove_wire", "definition.remove_cable"],
             limits={"positions": _ODD, "names": (None,), "proxy_pairs": lambda w: []}, depth={"quick": 2, "thorough": 3},
             note="add_cable / add_wire / connect_pin at negative, out-of-range and non-index positions"),
    Scenario("S18c-odd-positions-children", seeds.seed_children,
             ["definition.add_child", "definition.remove_child", "library.add_definition", "library.remove_definition",
              "netlist.add_library", "netlist.remove_library"],
             limits={"positions": _ODD, "names": (None,)}, depth={"quick": 2, "thorough": 3},
             note="add_child / add_definition / add_library at negative, out-of-range and non-index positions"),
]

STRUCTURAL += [S10, S11, S9, S12, S13, S14]
INSTANCE_SCENARIOS += [S11, S16, S17]
