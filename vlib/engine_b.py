"""Engine B: bounded-exhaustive enumeration of an explicit finite input space (DESIGN 2).

cases   = list of JSON-able descriptors, simplest first (the whole space, never a sample)
worker  = module-level function: case -> {"key": digest of the canonical input, "nontrivial": bool,
          "transitions": int, "outcome": str, "problems": [(signature, what)]}
"""
import time

from . import core

WORKERS = {}


CASE_TIMEOUT_S = 120


class CaseTimeout(Exception):
    pass


def _alarm(signum, frame):
    raise CaseTimeout()


def _call(task):
    """one case under a wall-clock alarm.  A case that does not finish in time is run once more with four
    times the budget (the machine may just be busy); only if that fails too is it reported (signature
    case-timeout) - never a stuck run, and not a verdict that depends on the load."""
    import signal
    name, case = task
    old = signal.signal(signal.SIGALRM, _alarm)
    try:
        for budget in (CASE_TIMEOUT_S, 4 * CASE_TIMEOUT_S):
            signal.setitimer(signal.ITIMER_REAL, budget)
            try:
                return WORKERS[name](case)
            except CaseTimeout:
                continue
            finally:
                signal.setitimer(signal.ITIMER_REAL, 0)
        return {"key": core.digest(case), "nontrivial": True, "outcome": "timeout", "transitions": 1,
                "problems": [("case-timeout:%s" % name, "case did not finish within %d s: %r" % (4 * CASE_TIMEOUT_S, case))]}
    finally:
        signal.signal(signal.SIGALRM, old)


def run_cases(name, cases, cov, found, deadline=None, sample_every=997, chunk=None, level=None):
    """Executes every case (in parallel, results in input order); updates cov and found."""
    cases = list(cases)
    t0 = time.time()
    keys = cov.d.setdefault("_keys", set())
    ntkeys = cov.d.setdefault("_ntkeys", set())
    outcomes = cov.d.setdefault("_outcomes", set())
    done = 0
    capped = False
    step = 20000
    for lo in range(0, len(cases), step):
        part = cases[lo:lo + step]
        for case, r in zip(part, core.pimap(_call, [(name, c) for c in part], chunk)):
            done += 1
            cov.add("transitions", r.get("transitions", 1))
            cov.add("evaluations", 1)
            keys.add(r["key"])
            if r.get("nontrivial"):
                ntkeys.add(r["key"])
            outcomes.add(r.get("outcome", "ok"))
            if done % sample_every == 1:
                cov.sample({"case": case, "outcome": r.get("outcome", "ok")})
            for sig, what in r.get("problems", ()):
                f = found.get(sig)
                if f is None:
                    found[sig] = {"count": 1, "what": what, "case": {"engine": "B", "worker": name, "case": case}}
                else:
                    f["count"] += 1
        if deadline is not None and time.time() > deadline and lo + step < len(cases):
            capped = True
            break
    cov["bounds_completed"][level or name] = {"cases_total": len(cases), "cases_done": done, "capped": capped,
                                              "wall_s": round(time.time() - t0, 2)}
    if capped:
        cov["exhaustive"] = False
    return done


def finish(cov):
    cov["states"] = len(cov.d.pop("_keys", ()))
    cov["distinct_nontrivial"] = len(cov.d.pop("_ntkeys", ()))
    cov["distinct_outcomes"] = len(cov.d.pop("_outcomes", ()))
    cov["traces_validated_against_impl"] = cov["transitions"]


def replay_case(case):
    r = WORKERS[case["worker"]](case["case"])
    return {"signatures": sorted(set(s for s, _ in r.get("problems", ()))),
            "details": sorted(set(w for _, w in r.get("problems", ()))), "outcome": r.get("outcome", "ok"),
            "key": r["key"]}
