"""Independent s-expression reading of EDIF netlist views into the canonical structure of
vlib.canon (ids=True).  Shares no code with the repository's reader."""
import re
import zipfile
import io

from . import core


def read_text(path):
    if zipfile.is_zipfile(path):
        z = zipfile.ZipFile(path)
        return z.read(z.namelist()[0]).decode()
    return open(path).read()


def tokens(text):
    i, n = 0, len(text)
    while i < n:
        ch = text[i]
        if ch in "()":
            yield ch
            i += 1
        elif ch == '"':
            j = text.index('"', i + 1)
            yield text[i:j + 1].replace("\n", "").replace("\r", "")
            i = j + 1
        elif ch in " \t\r\n":
            i += 1
        else:
            j = i
            while j < n and text[j] not in '() \t\r\n"':
                j += 1
            yield text[i:j]
            i = j


def parse(text):
    stack = [[]]
    for t in tokens(text):
        if t == "(":
            stack.append([])
        elif t == ")":
            x = stack.pop()
            stack[-1].append(x)
        else:
            stack[-1].append(t)
    assert len(stack) == 1, "unbalanced"
    return stack[0][0]


def head(x):
    return x[0].lower() if isinstance(x, list) and x and isinstance(x[0], str) else None


def namedef(x):
    if isinstance(x, list):
        assert head(x) == "rename"
        return x[1], x[2][1:-1]
    return x, x


def children(x, kind):
    return [c for c in x if head(c) == kind]


_BIT_NAME = re.compile(r"^(.*)\[(\d+)\]$")
_BIT_ID = re.compile(r"^(.*)_(\d+)_$")


def interpret(tree, merge_buses=True):
    assert head(tree) == "edif"
    nid, nname = namedef(tree[1])
    out = {"name": nname, "libs": {}, "lib_order": [], "top": None}
    amb = []  # constructs whose reading the documentation does not fix
    libs_by_id = {}
    for lib in [c for c in tree if head(c) in ("library", "external")]:
        lid, lname = namedef(lib[1])
        if lname in out["libs"]:
            amb.append("duplicate library name " + lname)
        L = out["libs"][lname] = {"defs": {}, "order": [], "id": lid}
        out["lib_order"].append(lname)
        cells_by_id = {}
        libs_by_id[lid.lower()] = (lname, cells_by_id)
        for cell in children(lib, "cell"):
            cid, cname = namedef(cell[1])
            if cname in L["defs"]:
                amb.append("duplicate cell name " + cname)
            D = L["defs"][cname] = {"ports": [], "insts": {}, "nets": {}, "id": cid}
            L["order"].append(cname)
            ports_by_id = {}
            cells_by_id[cid.lower()] = (cname, ports_by_id)
            view = children(cell, "view")[0]
            for itf in children(view, "interface"):
                for p in children(itf, "port"):
                    spec = p[1]
                    if head(spec) == "array":
                        pid, pname = namedef(spec[1])
                        width, arr = int(spec[2]), True
                    else:
                        pid, pname = namedef(spec)
                        width, arr = 1, False
                    dr = "undef"
                    for d in children(p, "direction"):
                        dr = {"input": "in", "output": "out", "inout": "inout"}[d[1].lower()]
                    D["ports"].append((pname, dr, width, arr, pid))
                    ports_by_id[pid.lower()] = (pname, arr)
            insts_by_id = {}
            bits = {}
            busid = {}
            order = []
            for cont in children(view, "contents"):
                for x in children(cont, "instance"):
                    iid, iname = namedef(x[1])
                    vr = children(x, "viewref")[0]
                    cr = children(vr, "cellref")[0]
                    lr = children(cr, "libraryref")
                    rl = lr[0][1].lower() if lr else lid.lower()
                    rlname, rcells = libs_by_id[rl]
                    rcname, rports = rcells[cr[1].lower()]
                    props = []
                    for pr in children(x, "property"):
                        prid, prname = namedef(pr[1])
                        tv = pr[2]
                        t = head(tv)
                        if t == "string":
                            v = tv[1][1:-1]
                        elif t == "integer" or (t == "number" and isinstance(tv[1], str)):
                            v = int(tv[1])
                        elif t == "boolean":
                            v = head(tv[1]) == "true"
                        else:
                            v = ("number", repr(tv[1:]))
                        row = {"identifier": prid, "value": v}
                        if prname != prid:
                            row["original_identifier"] = prname
                        props.append(row)
                    if iname in D["insts"]:
                        amb.append("duplicate instance name " + iname)
                    D["insts"][iname] = (rlname, rcname, core.freeze(props), iid)
                    insts_by_id[iid.lower()] = (iname, rports)
                for net in children(cont, "net"):
                    netid, netname = namedef(net[1])
                    eps = []
                    for j in children(net, "joined"):
                        for pr in children(j, "portref"):
                            spec = pr[1]
                            if head(spec) == "member":
                                pidl, idx = spec[1].lower(), int(spec[2])
                            else:
                                pidl, idx = spec.lower(), 0
                            ir = children(pr, "instanceref")
                            if ir:
                                iname, rports = insts_by_id[ir[0][1].lower()]
                                eps.append(("I", iname, rports[pidl][0], idx))
                            else:
                                eps.append(("P", ports_by_id[pidl][0], idx))
                    if re.match(r"^\[\d+:\d+\]", netname):
                        amb.append("range-prefixed net name " + netname)
                    m1, m2 = _BIT_NAME.match(netname), _BIT_ID.match(netid)
                    if merge_buses and m1 and m2 and netname != netid:
                        key = m1.group(1)
                        if key not in bits:
                            bits[key] = {}
                            busid[key] = m2.group(1)
                            order.append(("bus", key))
                        if int(m1.group(2)) in bits[key]:
                            amb.append("bus bit declared twice " + netname)
                        bits[key].setdefault(int(m1.group(2)), []).extend(eps)
                    else:
                        order.append(("net", (netname, netid, tuple(eps))))
            for kind, v in order:
                if kind == "net":
                    netname, netid, eps = v
                    if netname in D["nets"]:
                        amb.append("duplicate net name " + netname)
                    D["nets"][netname] = (1, False, 0, (eps,), netid)
                else:
                    b = bits[v]
                    lo, hi = min(b), max(b)
                    if v in D["nets"]:
                        amb.append("duplicate net name " + v)
                    D["nets"][v] = (hi - lo + 1, True, lo, tuple(tuple(b.get(k, ())) for k in range(lo, hi + 1)), busid[v])
    for ds in children(tree, "design"):
        cr = children(ds, "cellref")[0]
        lr = children(cr, "libraryref")[0]
        lname, cells = libs_by_id[lr[1].lower()]
        out["top"] = (lname, cells[cr[1].lower()][0])
    out["ambiguous"] = amb
    return out
