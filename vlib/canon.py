"""Name-keyed canonical structure of a netlist (DESIGN 4b), read through the public API, and a
differ that names the first differing aspect (used in violation signatures)."""
from . import core

DIRNAME = {"IN": "in", "OUT": "out", "INOUT": "inout", "UNDEFINED": "undef"}


def endpoint(pin, s):
    if isinstance(pin, s.OuterPin):
        ip = pin.inner_pin
        return ("I", pin.instance.name, ip.port.name, list(ip.port.pins).index(ip))
    return ("P", pin.port.name, list(pin.port.pins).index(pin))


def canon_netlist(n, props=True, ids=False, ordered_pins=True):
    s = core.sdn()
    out = {"name": n.name, "libs": {}, "lib_order": [l.name for l in n.libraries]}
    t = n.top_instance
    out["top"] = None if t is None or t.reference is None else (
        t.reference.library.name if t.reference.library else None, t.reference.name)
    for lib in n.libraries:
        L = out["libs"].setdefault(lib.name, {"defs": {}, "order": [d.name for d in lib.definitions]})
        if ids:
            L["id"] = lib.get("EDIF.identifier")
        for d in lib.definitions:
            D = L["defs"][d.name] = {"ports": [], "insts": {}, "nets": {}}
            if ids:
                D["id"] = d.get("EDIF.identifier")
            for p in d.ports:
                row = (p.name, DIRNAME[p.direction.name], len(p.pins), bool(p.is_array), p.lower_index)
                if ids:
                    row += (p.get("EDIF.identifier"),)
                D["ports"].append(row)
            for x in d.children:
                r = x.reference
                row = [None if r is None or r.library is None else r.library.name, None if r is None else r.name]
                if props:
                    row.append(core.freeze(x.get("EDIF.properties", [])))
                if ids:
                    row.append(x.get("EDIF.identifier"))
                D["insts"][x.name] = tuple(row)
            for c in d.cables:
                bits = []
                for w in c.wires:
                    eps = [endpoint(p, s) for p in w.pins]
                    bits.append(tuple(eps) if ordered_pins else tuple(sorted(eps, key=repr)))
                row = (len(c.wires), bool(c.is_array), c.lower_index, tuple(bits))
                if ids:
                    row += (c.get("EDIF.identifier"),)
                D["nets"][c.name] = row
    return out


def diff(a, b, path=""):
    """First difference between two canonical structures: (aspect, message) or None."""
    if type(a) != type(b):
        return (path or "type", "%r != %r" % (a, b))
    if isinstance(a, dict):
        for k in a:
            if k not in b:
                return (path + "/missing", "%s: %r only on the left (right has %s)" % (path, k, sorted(map(str, b))[:8]))
        for k in b:
            if k not in a:
                return (path + "/extra", "%s: %r only on the right" % (path, k))
        for k in a:
            sub = k if k in ("libs", "defs", "ports", "insts", "nets", "name", "top", "order", "lib_order", "id") else "*"
            d = diff(a[k], b[k], path + "/" + sub)
            if d:
                return (d[0], "%s: %s" % (k, d[1]))
        return None
    if a != b:
        return (path, "%r != %r" % (a, b))
    return None
