"""Hand-written base designs for the format checks (C03, C05, C16, C17, C20) and the rendering
option product of the independent EDIF writer."""
import itertools

from . import design
from .design import port

L1 = {"name": "L1", "ports": [port("i", 1, "in"), port("o", 1, "out")], "insts": [], "nets": []}
L2 = {"name": "L2", "ports": [port("d", 2, "inout")], "insts": [], "nets": []}


def E1():
    T = {"name": "T",
         "ports": [port("a", 1, "in"), port("y", 1, "out"), port("b", 2, "in"),
                   dict(port("c", 3, "out", lower=2)), dict(port("s", 1, "in", array=True), range=True)],
         "insts": [{"name": "u0", "ref": ["prims", "L1"], "props": [["weird first", "x"], ["INIT", "8'h01"], ["N", 3], ["F", True]]},
                   {"name": "u1", "ref": ["prims", "L1"]},
                   {"name": "u2", "ref": ["prims", "L2"], "props": [["weird-name", "v"]]}],
         "nets": [{"name": "n1", "bits": [[["P", "a", 0], ["I", "u0", "i", 0]]]},
                  {"name": "n2", "bits": [[["I", "u0", "o", 0], ["I", "u1", "i", 0]]]},
                  {"name": "n3", "bits": [[["I", "u1", "o", 0], ["P", "y", 0]]]},
                  {"name": "bb", "lower": 0, "bits": [[["P", "b", 0], ["I", "u2", "d", 0]], [["P", "b", 1], ["I", "u2", "d", 1]], []]},
                  {"name": "cc", "lower": 2, "bits": [[["P", "c", 0]], [["P", "c", 1], ["P", "s", 0]], [["P", "c", 2]]]},
                  {"name": "empty", "bits": [[]]}]}
    return {"name": "e1", "top": ["work", "T"], "top_name": "T",
            "libs": [{"name": "prims", "defs": [dict(L1), dict(L2)]}, {"name": "work", "defs": [T]}]}


def E2():
    A = {"name": "A", "ports": [port("a", 1, "in"), port("y", 1, "out")],
         "insts": [{"name": "c", "ref": ["prims", "L1"]}],
         "nets": [{"name": "x/y", "bits": [[["P", "a", 0], ["I", "c", "i", 0]]]},
                  {"name": "1st", "bits": [[["I", "c", "o", 0], ["P", "y", 0]]]}]}
    T = {"name": "Top-Cell", "ports": [port("p[0]", 1, "in"), port("q", 1, "out")],
         "insts": [{"name": "ua", "ref": ["work2", "A"]}, {"name": "u/b", "ref": ["work2", "A"], "props": [["k", "z"]]}],
         "nets": [{"name": "w0", "bits": [[["P", "p[0]", 0], ["I", "ua", "a", 0], ["I", "u/b", "a", 0]]]},
                  {"name": "w1", "bits": [[["I", "ua", "y", 0], ["P", "q", 0]]]}]}
    return {"name": "e2", "top": ["work", "Top-Cell"], "top_name": "top inst",
            "libs": [{"name": "prims", "defs": [dict(L1)]}, {"name": "work2", "defs": [A]}, {"name": "work", "defs": [T]}]}


def E3():
    """the top cell is neither the last cell of its library nor in the last library."""
    T = {"name": "Top", "ports": [port("p", 1, "in")],
         "insts": [{"name": "u", "ref": ["prims", "L1"]}],
         "nets": [{"name": "w", "bits": [[["P", "p", 0], ["I", "u", "i", 0]]]}]}
    U = {"name": "Unused", "ports": [port("z", 1, "out")], "insts": [], "nets": []}
    return {"name": "e3", "top": ["work", "Top"], "top_name": "top",
            "libs": [{"name": "prims", "defs": [dict(L1)]}, {"name": "work", "defs": [T, U]},
                     {"name": "extra", "defs": [dict(L2)]}]}


def E4():
    """one cell instantiating cells of two other libraries (both must precede it in the file)."""
    inv = {"name": "INV", "ports": [port("i", 1, "in"), port("o", 1, "out")], "insts": [], "nets": []}
    ff = {"name": "FF", "ports": [port("d", 1, "in"), port("q", 1, "out")], "insts": [], "nets": []}
    T = {"name": "top", "ports": [port("x", 1, "in"), port("z", 1, "out")],
         "insts": [{"name": "u_inv", "ref": ["gates", "INV"]}, {"name": "u_ff", "ref": ["regs", "FF"], "props": [["A b", 1], ["B", "two"], ["C", False], ["a_B", 5]]}],
         "nets": [{"name": "n0", "bits": [[["P", "x", 0], ["I", "u_inv", "i", 0]]]},
                  {"name": "n1", "bits": [[["I", "u_inv", "o", 0], ["I", "u_ff", "d", 0]]]},
                  {"name": "n2", "bits": [[["I", "u_ff", "q", 0], ["P", "z", 0]]]}]}
    return {"name": "e4", "top": ["work", "top"], "top_name": "top",
            "libs": [{"name": "gates", "defs": [inv]}, {"name": "regs", "defs": [ff]}, {"name": "work", "defs": [T]}]}


def E5():
    """two cells each holding an instance of the same leaf; the lower one leaves a pin open."""
    sub = {"name": "sub", "ports": [port("si", 1, "in")],
           "insts": [{"name": "u1", "ref": ["prims", "L1"]}],
           "nets": [{"name": "sn", "bits": [[["P", "si", 0], ["I", "u1", "i", 0]]]}]}
    T = {"name": "top", "ports": [port("x", 1, "in"), port("z", 1, "out")],
         "insts": [{"name": "u2", "ref": ["prims", "L1"]}, {"name": "s0", "ref": ["work", "sub"]}],
         "nets": [{"name": "n0", "bits": [[["P", "x", 0], ["I", "u2", "i", 0], ["I", "s0", "si", 0]]]},
                  {"name": "n1", "bits": [[["I", "u2", "o", 0], ["P", "z", 0]]]}]}
    return {"name": "e5", "top": ["work", "top"], "top_name": "top",
            "libs": [{"name": "prims", "defs": [dict(L1)]}, {"name": "work", "defs": [sub, T]}]}


def E6():
    """two libraries declare a cell with the same name; the design names the one in the earlier library."""
    ta = {"name": "top", "ports": [port("a_in", 1, "in")], "insts": [{"name": "u", "ref": ["prims", "L1"]}],
          "nets": [{"name": "w", "bits": [[["P", "a_in", 0], ["I", "u", "i", 0]]]}]}
    tb = {"name": "top", "ports": [port("b_in", 1, "in")], "insts": [], "nets": []}
    return {"name": "e6", "top": ["impl_a", "top"], "top_name": "top",
            "libs": [{"name": "prims", "defs": [dict(L1)]}, {"name": "impl_a", "defs": [ta]}, {"name": "impl_b", "defs": [tb]}]}


def E7():
    """two libraries declare a cell X of the same shape; both are instanced, one instance stays open."""
    xa = {"name": "X", "ports": [port("p", 1, "in")], "insts": [], "nets": []}
    xb = {"name": "X", "ports": [port("p", 1, "in")], "insts": [], "nets": []}
    T = {"name": "top", "ports": [port("i", 1, "in")],
         "insts": [{"name": "u1", "ref": ["la", "X"]}, {"name": "u2", "ref": ["lb", "X"]}, {"name": "u3", "ref": ["la", "X"]}],
         "nets": [{"name": "w", "bits": [[["P", "i", 0], ["I", "u1", "p", 0]]]}, {"name": "floating", "bits": [[]]}]}
    return {"name": "e7", "top": ["work", "top"], "top_name": "top",
            "libs": [{"name": "la", "defs": [xa]}, {"name": "lb", "defs": [xb]}, {"name": "work", "defs": [T]}]}


def E9():
    """dependency triangles among cells (X2 uses Y2 and Z2, Z2 uses Y2) and among libraries (work uses ly and lz,
    lz uses ly); a bus net whose name starts with a digit (identifier &2x_i_)."""
    y = {"name": "Y", "ports": [port("p", 1, "in")], "insts": [], "nets": []}
    z = {"name": "Z", "ports": [port("p", 1, "in")], "insts": [{"name": "y0", "ref": ["ly", "Y"]}],
         "nets": [{"name": "n", "bits": [[["P", "p", 0], ["I", "y0", "p", 0]]]}]}
    y2 = {"name": "Y2", "ports": [port("p", 1, "in")], "insts": [], "nets": []}
    z2 = {"name": "Z2", "ports": [port("p", 1, "in")], "insts": [{"name": "a", "ref": ["work", "Y2"]}],
          "nets": [{"name": "n", "bits": [[["P", "p", 0], ["I", "a", "p", 0]]]}]}
    x2 = {"name": "X2", "ports": [port("p", 1, "in")],
          "insts": [{"name": "b", "ref": ["work", "Y2"]}, {"name": "c", "ref": ["work", "Z2"]},
                    {"name": "d", "ref": ["ly", "Y"]}, {"name": "e", "ref": ["lz", "Z"]}],
          "nets": [{"name": "n", "bits": [[["P", "p", 0], ["I", "b", "p", 0], ["I", "c", "p", 0], ["I", "d", "p", 0], ["I", "e", "p", 0]]]}]}
    T = {"name": "top", "ports": [port("i", 1, "in"), port("q", 2, "in"), port("r", 2, "in")],
         "insts": [{"name": "x", "ref": ["work", "X2"]}],
         "nets": [{"name": "w", "bits": [[["P", "i", 0], ["I", "x", "p", 0]]]},
                  {"name": "2x", "bits": [[["P", "q", 0]], [["P", "q", 1]]]},
                  {"name": "_y", "bits": [[["P", "r", 0]], [["P", "r", 1]]]}]}   # identifier &_y_<i>_
    return {"name": "e9", "top": ["work", "top"], "top_name": "top",
            "libs": [{"name": "ly", "defs": [y]}, {"name": "lz", "defs": [z]}, {"name": "work", "defs": [y2, z2, x2, T]}]}


def _fresh(f):
    """every call hands out a private copy (the constructors share port and leaf-cell dictionaries)"""
    import copy
    return lambda: copy.deepcopy(f())


BASES = {k: _fresh(f) for k, f in {"E1": E1, "E2": E2, "E3": E3, "E4": E4, "E5": E5, "E6": E6, "E7": E7, "E9": E9}.items()}


def bus_renderings(width):
    """every permutation of the bits x every non-empty subset kept."""
    for perm in itertools.permutations(range(width)):
        for n in range(1, width + 1):
            for keep in itertools.combinations(range(width), n):
                yield perm, keep


def dup_instances(ad):
    """(design as written, design as it must be read): every cell that has instances gains one whose *name* repeats
    its first instance's while its identifier is its own; the reader documents that such an instance is known by
    its identifier."""
    import copy
    written, read = copy.deepcopy(ad), copy.deepcopy(ad)
    for a in (written, read):
        for lib in a["libs"]:
            for d in lib["defs"]:
                if d.get("insts"):
                    first = d["insts"][0]
                    d["insts"] = d["insts"] + [{"name": first["name"] if a is written else "zz_second", "id": "zz_second", "ref": first["ref"]}]
    return written, read


def long_identifiers(ad):
    """identifiers at the length limit: 255 characters, and 256 with the leading & (names that start with a digit)."""
    import copy
    a = copy.deepcopy(ad)
    for lib in a["libs"]:
        for d in lib["defs"]:
            if d.get("insts"):
                ref = d["insts"][0]["ref"]
                d["insts"] = d["insts"] + [{"name": "w" * 255, "ref": ref}, {"name": "9" + "z" * 254, "id": "&9" + "z" * 254, "ref": ref}]
                d["nets"] = (d.get("nets") or []) + [{"name": "8" + "n" * 254, "id": "&8" + "n" * 254, "bits": [[]]}, {"name": "m" * 255, "bits": [[]]}]
        lib["defs"] = lib["defs"] + [{"name": "7" + "c" * 254, "id": "&7" + "c" * 254, "ports": [], "insts": [], "nets": []}]
    return a


def edif_option_product(tier):
    out = []
    for refcase in ("decl", "upper", "lower"):
        for always in (False, True):
            for lr in ("present", "omitted"):
                for comments in (False, True):
                    for dc in ("decl", "upper", "lower"):
                        out.append({"refcase": refcase, "always_rename": always, "libref_same": lr, "comments": comments, "design_case": dc})
                        out.append({"refcase": refcase, "always_rename": always, "libref_same": lr, "comments": comments, "design_case": dc, "rich": True})
                        if not comments and dc == "decl":
                            out.append({"refcase": refcase, "always_rename": always, "libref_same": lr, "comments": comments, "design_case": dc, "split_nets": True})
                            out.append({"refcase": refcase, "always_rename": always, "libref_same": lr, "comments": comments, "design_case": dc, "dup_instances": True})
                            if lr == "present":
                                out.append({"refcase": refcase, "always_rename": always, "libref_same": lr, "comments": comments, "design_case": dc, "long_ids": True})
    return out
