"""Seed states for Engine A ("start from non-initial states too").  Each seed is a small
constructor script run through the public API on a fresh World."""
from . import core


def seed_empty(w):
    s = core.sdn()
    w.add(s.Netlist(name="n0"))


def seed_libs(w):
    """two netlists, libraries in both, an orphan library and an orphan definition."""
    s = core.sdn()
    n0 = s.Netlist(name="n0")
    l0 = n0.create_library(name="a")
    l1 = n0.create_library(name="b")
    l0.create_definition(name="a")
    l0.create_definition(name="b")
    n1 = s.Netlist(name="n1")
    n1.create_library(name="a")
    l3 = s.Library(name="c")
    d2 = s.Definition(name="c")
    for o in (n0, n1, l3, d2):
        w.add(o)


def seed_ports(w):
    """a leaf definition with a 2-pin port that already has two instances; an orphan port with a
    pin; an orphan inner pin; a second (uninstanced) definition."""
    s = core.sdn()
    n = s.Netlist(name="n")
    lib = n.create_library(name="l")
    leaf = lib.create_definition(name="leaf")
    leaf.create_port(name="p", pins=2)
    top = lib.create_definition(name="top")
    u0 = top.create_child(name="u0", reference=leaf)
    top.create_child(name="u1", reference=leaf)
    other = lib.create_definition(name="other")
    op = s.Port(name="q")
    op.create_pin()
    ip = s.InnerPin()
    for o in (n, op, ip):
        w.add(o)
    # views the caller obtained before the events and keeps looking at
    # (the pins mapping of an instance; list views of containers are snapshots of a list object that reorder
    # assignments and bulk removals replace - no property speaks of them)
    w.views += [(u0, "pins", u0.pins)]


def seed_conn(w):
    """connections through every pin kind: top port pin (inner), two instance pins (outer)."""
    s = core.sdn()
    n = s.Netlist(name="n")
    lib = n.create_library(name="l")
    leaf = lib.create_definition(name="leaf")
    lp = leaf.create_port(name="p", pins=2)
    top = lib.create_definition(name="top")
    tp = top.create_port(name="tp", pins=1)
    c = top.create_cable(name="c", wires=2)
    u0 = top.create_child(name="u0", reference=leaf)
    u1 = top.create_child(name="u1", reference=leaf)
    c.wires[0].connect_pin(tp.pins[0])
    c.wires[0].connect_pin(u0.pins[lp.pins[0]])
    c.wires[1].connect_pin(u1.pins[lp.pins[1]])
    n.top_instance = top
    ow = s.Wire()
    for o in (n, ow):
        w.add(o)
    w.discover()
    # a proxy that remembers a wire it is no longer on: connected through the proxy, taken off through
    # the instance's own pin
    px = w.proxy(w.idx(u0), w.idx(lp.pins[1]))
    c.wires[1].connect_pin(px)
    c.wires[1].disconnect_pin(u0.pins[lp.pins[1]])


def seed_held_lists(w):
    """two cables without wires, two ports without pins (one definition is instanced), a wired child; the caller
    holds two list objects (empty) that it hands to the reorder setters and keeps."""
    s = core.sdn()
    n = s.Netlist(name="n")
    lib = n.create_library(name="l")
    leaf = lib.create_definition(name="leaf")
    leaf.create_port(name="p0")
    leaf.create_port(name="p1")
    top = lib.create_definition(name="top")
    top.create_cable(name="c0")
    top.create_cable(name="c1")
    top.create_child(name="u", reference=leaf)
    n.top_instance = top
    n.create_library(name="e0")        # two libraries without definitions
    n.create_library(name="e1")
    lib.create_definition(name="x0")   # two definitions without ports / cables / children
    lib.create_definition(name="x1")
    w.add(n)
    w.add(s.Netlist(name="m0"))        # two netlists without libraries
    w.add(s.Netlist(name="m1"))
    w.held.append([])
    w.held.append([])


def seed_children(w):
    """two shape-compatible definitions and one incompatible; a connected child, an orphan
    instance, a second parent definition."""
    s = core.sdn()
    n = s.Netlist(name="n")
    lib = n.create_library(name="l")
    d0 = lib.create_definition(name="d0")
    p0 = d0.create_port(name="p", pins=1)
    d1 = lib.create_definition(name="d1")
    d1.create_port(name="p", pins=1)
    d2 = lib.create_definition(name="d2")
    d2.create_port(name="p", pins=2)
    top = lib.create_definition(name="top")
    c = top.create_cable(name="c", wires=1)
    u0 = top.create_child(name="u0", reference=d0)
    c.wires[0].connect_pin(u0.pins[p0.pins[0]])
    top2 = lib.create_definition(name="top2")
    x = s.Instance(name="x")
    x.reference = d1
    for o in (n, x):
        w.add(o)
    # views of the instances' pins taken before the events (they follow re-pointing and un-referencing)
    w.views += [(u0, "pins", u0.pins), (x, "pins", x.pins)]


def seed_moves(w):
    """elements that can be removed from one parent and re-added to another, with connections."""
    s = core.sdn()
    n = s.Netlist(name="n")
    lib = n.create_library(name="l")
    leaf = lib.create_definition(name="leaf")
    lp = leaf.create_port(name="p", pins=1)
    a = lib.create_definition(name="a")
    ap = a.create_port(name="ap", pins=1)
    ac = a.create_cable(name="ac", wires=1)
    u = a.create_child(name="u", reference=leaf)
    ac.wires[0].connect_pin(ap.pins[0])
    ac.wires[0].connect_pin(u.pins[lp.pins[0]])
    b = lib.create_definition(name="b")
    ia = b.create_child(name="ia", reference=a)
    w.add(n)
    w.views += [(u, "pins", u.pins), (ia, "pins", ia.pins)]


def seed_names(kind):
    """Naming scopes for C10: a parent with two named children and one unnamed, plus an orphan."""

    def seed(w):
        s = core.sdn()
        n = s.Netlist(name="n")
        def ident(el, v):
            el["EDIF.identifier"] = v
            return el

        if kind == "L":
            ident(n.create_library(name="a"), "a")
            n.create_library()
            w.add(n)
            w.add(ident(s.Library(name="b"), "b"))
            return
        lib = n.create_library(name="l")
        if kind == "D":
            ident(lib.create_definition(name="a"), "a")
            lib.create_definition()
            w.add(n)
            w.add(ident(s.Definition(name="b"), "b"))
            return
        d = lib.create_definition(name="d")
        # a second definition whose children reuse the names: exact lookups from the library or the
        # netlist must find the children of both
        d2 = lib.create_definition(name="d2")
        {"P": d2.create_port, "C": d2.create_cable, "X": d2.create_child}[kind](name="a")
        if kind == "P":
            ident(d.create_port(name="a"), "a")
            d.create_port()
            w.add(n)
            w.add(ident(s.Port(name="b"), "b"))
        elif kind == "C":
            ident(d.create_cable(name="a"), "a")
            d.create_cable()
            w.add(n)
            w.add(ident(s.Cable(name="b"), "b"))
        elif kind == "X":
            ident(d.create_child(name="a"), "a")
            d.create_child()
            w.add(n)
            w.add(ident(s.Instance(name="b"), "b"))

    seed.__name__ = "seed_names_" + kind
    return seed


def seed_mixed_policy(w):
    """a netlist under the EDIF policy (the scenario's) and orphans built under DEFAULT - what a user has after
    parsing an EDIF file (the reader restores DEFAULT) and creating new elements through the API: a compliant
    library (definition e: port p, cable c), a definition whose ports carry identifiers equal up to case, a port
    with an illegal identifier."""
    s = core.sdn()
    n = s.Netlist(name="n")
    lib = n.create_library(name="l")
    lib["EDIF.identifier"] = "l"
    d = lib.create_definition(name="d")
    d["EDIF.identifier"] = "d"
    pa = d.create_port(name="a")
    pa["EDIF.identifier"] = "a"
    s.namespace_manager.default = "DEFAULT"
    try:
        ol = s.Library(name="b")
        e = ol.create_definition(name="e")
        e.create_port(name="p")
        e.create_cable(name="c")
        f = s.Definition(name="f")
        f.create_port(name="x")["EDIF.identifier"] = "x"
        f.create_port(name="y")["EDIF.identifier"] = "X"
        g = s.Port(name="g")
        g["EDIF.identifier"] = "9lives"
    finally:
        s.namespace_manager.default = "EDIF"
    for o in (n, ol, f, g):
        w.add(o)


def seed_c02_zero(w):
    """no instance yet: two definitions (one with a pin), an orphan port with a pin."""
    s = core.sdn()
    n = s.Netlist(name="n")
    lib = n.create_library(name="l")
    d0 = lib.create_definition(name="d0")
    d0.create_port(name="p", pins=1)
    lib.create_definition(name="d1")
    q = s.Port(name="q")
    q.create_pin()
    w.add(n)
    w.add(q)


def seed_c02_mix(w):
    """one child (connected) and one top instance of the same definition; a parent with a wire."""
    s = core.sdn()
    n = s.Netlist(name="n")
    lib = n.create_library(name="l")
    d0 = lib.create_definition(name="d0")
    p = d0.create_port(name="p", pins=1)
    d1 = lib.create_definition(name="d1")
    d1.create_port(name="p", pins=1)
    top = lib.create_definition(name="top")
    c = top.create_cable(name="c", wires=1)
    u = top.create_child(name="u", reference=d0)
    c.wires[0].connect_pin(u.pins[p.pins[0]])
    n.top_instance = d0
    w.add(n)


def seed_repoint(w):
    """an instance connected on both ports of a 2-port definition; shape-compatible targets for the
    shapes reachable by one pin/port edit."""
    s = core.sdn()
    n = s.Netlist(name="n")
    lib = n.create_library(name="l")
    d0 = lib.create_definition(name="d0")
    a = d0.create_port(name="A", pins=1)
    b = d0.create_port(name="B", pins=1)
    d1 = lib.create_definition(name="d1")
    d1.create_port(name="A", pins=2)
    d1.create_port(name="B", pins=1)
    d2 = lib.create_definition(name="d2")
    d2.create_port(name="A", pins=1)
    d2.create_port(name="B", pins=1)
    d3 = lib.create_definition(name="d3")   # first port fits, the second does not
    d3.create_port(name="A", pins=1)
    d3.create_port(name="B", pins=2)
    top = lib.create_definition(name="top")
    c = top.create_cable(name="c", wires=3)
    u = top.create_child(name="u", reference=d0)
    c.wires[0].connect_pin(u.pins[a.pins[0]])
    c.wires[1].connect_pin(u.pins[b.pins[0]])
    w.add(n)
    # collections of stored outer pins the caller built now and passes to a bulk call later (a set and a list)
    w.held.append({u.pins[a.pins[0]]})
    w.held.append([u.pins[b.pins[0]]])


def seed_bundles(w):
    """ports and cables of widths 1 and 2 (connected), array/scalar flags, an instanced definition."""
    s = core.sdn()
    n = s.Netlist(name="n")
    lib = n.create_library(name="l")
    leaf = lib.create_definition(name="leaf")
    p1 = leaf.create_port(name="p1", pins=1)
    p2 = leaf.create_port(name="p2", pins=2)
    top = lib.create_definition(name="top")
    c1 = top.create_cable(name="c1", wires=1)
    c2 = top.create_cable(name="c2", wires=2)
    u = top.create_child(name="u", reference=leaf)
    c1.wires[0].connect_pin(u.pins[p1.pins[0]])
    c2.wires[1].connect_pin(u.pins[p2.pins[1]])
    w.add(n)


def seed_two_netlists(w):
    """two netlists whose instances reference definitions of the other one."""
    s = core.sdn()
    a = s.Netlist(name="a")
    la = a.create_library(name="la")
    da = la.create_definition(name="da")
    pa = da.create_port(name="p", pins=1)
    ta = la.create_definition(name="ta")
    b = s.Netlist(name="b")
    lb = b.create_library(name="lb")
    db = lb.create_definition(name="db")
    db.create_port(name="p", pins=1)
    tb = lb.create_definition(name="tb")
    xa = ta.create_child(name="x", reference=db)   # a's instance of b's definition
    xb = tb.create_child(name="x", reference=da)   # and vice versa
    c = tb.create_cable(name="c", wires=1)
    c.wires[0].connect_pin(xb.pins[pa.pins[0]])
    a.top_instance = ta
    w.add(a)
    w.add(b)
