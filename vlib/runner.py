"""Command-line runner: ./vcheck <ID> [--tier quick|thorough] [--replay file]."""
import argparse
import fnmatch
import importlib
import json
import os
import subprocess
import sys
import time

from . import core

LEVELS = {}  # property -> level category, filled by the check modules (LEVEL attribute)


def load_known():
    p = os.path.join(core.VERIF, "known_findings.json")
    if not os.path.exists(p):
        return []
    return json.load(open(p))["findings"]


def main(argv=None):
    ap = argparse.ArgumentParser()
    ap.add_argument("prop")
    ap.add_argument("--tier", default=os.environ.get("VERIF_TIER", "quick"), choices=["quick", "thorough"])
    ap.add_argument("--replay")
    ap.add_argument("--no-confirm", action="store_true")
    a = ap.parse_args(argv)
    if os.environ.get("PYTHONHASHSEED") != "0":
        env = dict(os.environ, PYTHONHASHSEED="0", PYTHONDONTWRITEBYTECODE="1")
        os.execve(sys.executable, [sys.executable] + sys.argv, env)
    prop = a.prop.upper()
    mod = importlib.import_module("checks.%s" % prop.lower())
    if a.replay:
        return do_replay(mod, prop, a.replay)
    try:
        seed = int(os.environ.get("VERIF_SEED", "0"))
    except ValueError:
        seed = 0
    t0 = time.time()
    core.sdn()
    core.capture_baseline()
    cov, found = mod.run(a.tier, seed)
    wall = time.time() - t0
    known = [k for k in load_known() if k["property"] == prop]
    new, hit = [], []
    for sig in sorted(found):
        f = found[sig]
        k = next((k for k in known if k.get("status") == "open" and _match(k["signature"], sig)), None)
        if k is not None:
            hit.append((sig, k, f))
        else:
            new.append((sig, f))
    cov["known_findings_hit"] = [{"signature": s, "count": f["count"]} for s, _, f in hit]
    # one KNOWN-FINDING line per listed finding that was reproduced
    done = set()
    for sig, k, f in hit:
        if k["signature"] not in done:
            done.add(k["signature"])
            print("KNOWN-FINDING: property=%s %s [%s]" % (prop, k["what"], k["signature"]))
    nviol = 0
    unconfirmed = 0
    tried = 0
    # confirmation order: one signature of each clause in turn (a clause = the text before the first colon), so
    # that a reproducible clause is reached even when many unreproducible observations sort in front of it
    groups = {}
    for sig, f in new:
        groups.setdefault(sig.split(":")[0], []).append((sig, f))
    ordered = []
    while any(groups.values()):
        for g in sorted(groups):
            if groups[g]:
                ordered.append(groups[g].pop(0))
    for sig, f in ordered:
        if nviol >= 12 or tried >= 60:
            break
        tried += 1
        path = write_replay(prop, sig, f)
        ok = True if a.no_confirm else confirm(prop, path)
        if ok:
            nviol += 1
            print("VIOLATION property=%s replay=%s" % (prop, path))
            print("  signature: %s (x%d)\n  what: %s" % (sig, f["count"], f["what"]))
        else:
            # not believed: the single case, replayed twice in fresh interpreters, did not show it (or showed it
            # differently) - e.g. it depended on what an earlier case left behind in the worker process
            unconfirmed += 1
            os.remove(path)
            print("UNCONFIRMED: %s %s (%s)" % (sig, "differs between two replays" if ok is None else "did not reproduce in a fresh interpreter", f["what"][:120]))
    if len(new) > tried:
        print("... %d further distinct violation signatures not written" % (len(new) - tried))
    # a confirmed violation is a verdict; observations that could not be confirmed and nothing else are a harness error
    rc = 1 if nviol else (2 if unconfirmed else 0)
    if rc == 2:
        print("HARNESS-ERROR: %d observation(s), none reproducible from its recorded case" % unconfirmed)
    cov["unconfirmed_observations"] = unconfirmed
    write_evidence(prop, a.tier, seed, mod, cov, wall, nviol if rc != 2 else len(new))
    d = cov.d
    print("%s tier=%s states=%d transitions=%d nontrivial=%d outcomes=%s exhaustive=%s wall=%.1fs violations=%d known=%d"
          % (prop, a.tier, d["states"], d["transitions"], d["distinct_nontrivial"], d.get("distinct_outcomes"),
             d["exhaustive"], wall, len(new), len(hit)))
    return rc


def _match(pattern, sig):
    return pattern == sig or fnmatch.fnmatchcase(sig, pattern)


def outdir(kind):
    """evidence/ and replays/ live in /verif unless VERIF_OUT redirects them (used when the checks
    are pointed at a scratch copy of the repository carrying a seeded change)."""
    return os.path.join(os.environ.get("VERIF_OUT") or core.VERIF, kind)


def write_replay(prop, sig, f):
    d = os.path.join(outdir("replays"), prop)
    os.makedirs(d, exist_ok=True)
    path = os.path.join(d, core.digest(sig) + ".json")
    json.dump({"property": prop, "signature": sig, "what": f["what"], "count": f["count"], "case": f["case"]},
              open(path, "w"), indent=1, default=str)
    return path


def confirm(prop, path):
    """Replay twice in fresh interpreters; True = reproduced both times with equal observations,
    False = not reproduced, None = observations differ (harness error)."""
    outs = []
    for _ in range(2):
        r = subprocess.run([sys.executable, os.path.join(core.VERIF, "vcheck"), prop, "--replay", path],
                           capture_output=True, text=True, env=dict(os.environ, PYTHONHASHSEED="0"))
        outs.append((r.returncode, r.stdout))
    if outs[0] != outs[1]:
        return None
    # reproduced = the replay itself says so (a crash of the replay also exits non-zero and must not count)
    return outs[0][0] == 1 and "\nREPRODUCED " in "\n" + outs[0][1]


def do_replay(mod, prop, path):
    rec = json.load(open(path))
    core.sdn()
    core.capture_baseline()
    res = mod.replay(rec["case"])
    print(json.dumps(res, indent=1, sort_keys=True, default=str))
    want = rec["signature"]
    if want in res["signatures"]:
        print("REPRODUCED %s" % want)
        return 1
    print("NOT-REPRODUCED %s" % want)
    return 0


def write_evidence(prop, tier, seed, mod, cov, wall, nviol):
    d = outdir("evidence")
    os.makedirs(d, exist_ok=True)
    c = dict(cov.d)
    if not c["samples"]:
        c["samples"] = ["(none recorded)"]
    ev = {
        "property_id": prop, "tier": tier, "seed": seed, "level": getattr(mod, "LEVEL", "model_checking"),
        "coverage": c, "assumptions": getattr(mod, "ASSUMPTIONS", []), "wall_s": round(wall, 2),
        "violations": nviol,
    }
    tmp = os.path.join(d, prop + ".json.tmp")
    json.dump(ev, open(tmp, "w"), indent=1, default=str)
    os.replace(tmp, os.path.join(d, prop + ".json"))
