"""Independent elaborator (DESIGN 4): reads a real netlist through the public read API only and
produces the elaborated design: tree of instance paths, leaf type per path, every hierarchical
occurrence of ports/pins/cables/wires, and a union-find over hierarchical wires joined across
instance port boundaries."""


class UF:
    def __init__(self):
        self.p = {}

    def find(self, x):
        p = self.p
        if x not in p:
            p[x] = x
            return x
        r = x
        while p[r] != r:
            r = p[r]
        while p[x] != r:
            p[x], x = r, p[x]
        return r

    def union(self, a, b):
        ra, rb = self.find(a), self.find(b)
        if ra != rb:
            self.p[ra] = rb


def is_leaf_def(d):
    return len(d.children) == 0 and len(d.cables) == 0


class Elab:
    """occurrences are keyed by `path`: tuple of instance objects from the top instance down
    (top instance included as path[0])."""

    def __init__(self, netlist, max_nodes=200000):
        self.netlist = netlist
        self.top = netlist.top_instance
        self.instances = []   # paths (tuples of Instance objects), top first, pre-order
        self.wires = []       # (path, wire)
        self.uf = UF()
        self.truncated = False
        if self.top is None or self.top.reference is None:
            return
        stack = [(self.top,)]
        while stack:
            path = stack.pop()
            self.instances.append(path)
            if len(self.instances) > max_nodes:
                self.truncated = True
                break
            ref = path[-1].reference
            if ref is None:
                continue
            for cable in ref.cables:
                for w in cable.wires:
                    self.wires.append((path, w))
                    self.uf.find((path, id(w)))
            for child in reversed(list(ref.children)):
                stack.append(path + (child,))
        # join across boundaries
        for path in self.instances:
            if len(path) < 2:
                continue
            inst = path[-1]
            parent_path = path[:-1]
            if inst.reference is None:
                continue
            for port in inst.reference.ports:
                for ip in port.pins:
                    op = inst.pins.get(ip)
                    if op is None:
                        continue
                    ow, iw = op.wire, ip.wire
                    if ow is not None and iw is not None:
                        self.uf.union((parent_path, id(ow)), (path, id(iw)))

    # ---------------------------------------------------------- names
    @staticmethod
    def pname(path):
        """slash-joined instance names below the top instance."""
        return "/".join(str(x.name) for x in path[1:])

    def leaf_paths(self):
        return [p for p in self.instances if len(p) > 1 and p[-1].reference is not None and is_leaf_def(p[-1].reference)]

    def tree(self):
        """{path name: (definition name of the instance, is leaf)} for every instance below top."""
        out = {}
        for p in self.instances:
            if len(p) > 1:
                r = p[-1].reference
                out[self.pname(p)] = (r.name if r is not None else None, r is not None and is_leaf_def(r))
        return out

    # ---------------------------------------------------------- connectivity over endpoints
    def endpoint_partition(self):
        """Partition of all endpoints (leaf pin bits, top port bits) into electrically connected
        groups; unconnected endpoints are singletons.  Endpoints are named:
        ("pin", path name, port name, bit) and ("top", port name, bit)."""
        groups = {}
        singles = []
        topref = self.top.reference
        for port in topref.ports:
            for b, ip in enumerate(port.pins):
                ep = ("top", port.name, b)
                if ip.wire is not None:
                    groups.setdefault(self.uf.find(((self.top,), id(ip.wire))), []).append(ep)
                else:
                    singles.append(ep)
        for p in self.leaf_paths():
            inst = p[-1]
            for port in inst.reference.ports:
                for b, ip in enumerate(port.pins):
                    ep = ("pin", self.pname(p), port.name, b)
                    op = inst.pins.get(ip)
                    if op is not None and op.wire is not None:
                        groups.setdefault(self.uf.find((p[:-1], id(op.wire))), []).append(ep)
                    else:
                        singles.append(ep)
        part = set(frozenset(g) for g in groups.values())
        part |= set(frozenset([e]) for e in singles)
        return part

    def wire_classes(self):
        """root -> list of (path, wire) hierarchical wires."""
        out = {}
        for path, w in self.wires:
            out.setdefault(self.uf.find((path, id(w))), []).append((path, w))
        return out


def flat_partition(netlist):
    """Direct reading of a (flattened) top definition: same endpoint naming as
    Elab.endpoint_partition with the child's own name as its path name."""
    top = netlist.top_instance.reference
    groups = {}
    singles = []
    for port in top.ports:
        for b, ip in enumerate(port.pins):
            ep = ("top", port.name, b)
            if ip.wire is not None:
                groups.setdefault(id(ip.wire), []).append(ep)
            else:
                singles.append(ep)
    for inst in top.children:
        if inst.reference is None:
            continue
        for port in inst.reference.ports:
            for b, ip in enumerate(port.pins):
                ep = ("pin", inst.name, port.name, b)
                op = inst.pins.get(ip)
                if op is not None and op.wire is not None:
                    groups.setdefault(id(op.wire), []).append(ep)
                else:
                    singles.append(ep)
    part = set(frozenset(g) for g in groups.values())
    part |= set(frozenset([e]) for e in singles)
    return part
