"""The alphabet of Engine A: every public mutator of the IR as an operation over pool selectors.

An event is [op_name, args]; args are JSON values:
    int                 pool index of a real object
    None                None
    {"lit": v}          literal value
    {"proxy": [x, i]}   OuterPin.from_instance_and_inner_pin(pool[x], pool[i])
    {"list": [...]} / {"set": [...]}   collection of selectors
Argument domains are *all* pool objects of the accepted Python type (valid and invalid alike),
so accepted and refused calls are explored together.
"""
import itertools

from . import core


def lit(v):
    return {"lit": v}


def resolve(w, a):
    if a is None:
        return None
    if isinstance(a, int):
        return w[a]
    if "lit" in a:
        return a["lit"]
    if "proxy" in a:
        x, i = a["proxy"]
        return w.proxy(x, i)
    if "held" in a:  # a collection the caller built earlier (at seed time) and still holds
        return w.held[a["held"]]
    if "gen" in a:  # a one-shot iterator
        return (y for y in [resolve(w, x) for x in a["gen"]])
    if "list" in a:
        return [resolve(w, x) for x in a["list"]]
    if "set" in a:
        return set(resolve(w, x) for x in a["set"])
    raise ValueError(a)


class Op:
    def __init__(self, name, doms, fn, writes=()):
        self.name = name
        self.doms = doms
        self.fn = fn
        self.writes = writes

    def enum(self, w, limits):
        """All argument tuples over the current pool."""
        first = None
        cols = []
        for d in self.doms:
            cols.append(d)
        return _product(w, cols, limits)

    def apply(self, w, args):
        return self.fn(*[resolve(w, a) for a in args])


def _product(w, doms, limits):
    def rec(i, acc):
        if i == len(doms):
            yield list(acc)
            return
        for v in _domain(w, doms[i], acc, limits):
            acc.append(v)
            yield from rec(i + 1, acc)
            acc.pop()

    return rec(0, [])


def _domain(w, d, acc, limits):
    """Values of one argument position; may depend on earlier arguments (acc)."""
    if isinstance(d, str):  # kinds
        lim = limits.get("pool", {})
        for i in w.of_kind(d):
            if w.kind[i] in lim and i not in lim[w.kind[i]](w):
                continue
            yield i
        return
    tag = d[0]
    if tag == "lit":
        for v in d[1]:
            yield lit(v)
    elif tag == "name":
        for v in limits.get("names", (None,) + NAMES):
            yield lit(v)
    elif tag == "clonable":
        yield from _domain(w, limits.get("clone_kinds", "NLD"), acc, limits)
    elif tag == "elem":
        yield from _domain(w, limits.get("elem_kinds", FIRST), acc, limits)
    elif tag == "held":
        for i in range(len(w.held)):
            yield {"held": i}
    elif tag == "count":
        for v in limits.get("counts", (None, 1, 2)):
            yield lit(v)
    elif tag == "key":
        for v in limits.get("keys", (".NAME", "EDIF.identifier", "k")):
            yield lit(v)
    elif tag == "pos":
        for v in limits.get("positions", (None, 0)):
            yield lit(v)
    elif tag == "pin":  # any pin: inner pins, stored outer pins, proxies (valid, stale and bogus)
        yield from _domain(w, "I", acc, limits)
        yield from _domain(w, "O", acc, limits)
        pp = limits.get("proxy_pairs")
        if pp is not None:
            for x, i in pp(w):
                yield {"proxy": [x, i]}
        else:
            for x in _domain(w, "X", acc, limits):
                for i in _domain(w, "I", acc, limits):
                    yield {"proxy": [x, i]}
    elif tag == "subsets":  # ("subsets", kinds, maxsize, "list"|"set")
        kinds, maxsize, coll = d[1], d[2], d[3]
        maxsize = min(maxsize, limits.get("bulk_max", maxsize))
        if kinds == "pin":
            items = list(_domain(w, ("pin",), acc, limits))
        else:
            items = list(_domain(w, kinds, acc, limits))
        for n in range(1, maxsize + 1):
            for c in itertools.combinations(items, n):
                yield {coll: list(c)}
        if limits.get("empty_bulk", True):
            yield {coll: []}
        if coll == "list" and items and limits.get("odd_bulk", True):
            yield {"list": [items[0], items[0]]}   # the same element named twice
            yield {"gen": [items[0]]}              # a generator instead of a list
            if len(items) > 1:
                yield {"gen": [items[0], items[1]]}
    elif tag == "reorder":  # ("reorder", attr, kinds): derived from the container in acc[0]
        attr, kinds = d[1], d[2]
        cur = [w.idx(x) for x in getattr(w[acc[0]], attr)]
        seen = set()
        cands = []
        if len(cur) <= 3:
            cands += [list(p) for p in itertools.permutations(cur)]
        else:
            cands += [list(cur), list(reversed(cur)), cur[1:] + cur[:1]]
        foreign = [i for i in w.of_kind(kinds) if i not in cur]
        if cur:
            cands.append(cur[:-1])  # drops a member
            cands.append(cur + [cur[0]])  # duplicates a member
            cands.append([cur[0]] + cur)  # duplicate in front
        if foreign:
            cands.append(cur + [foreign[0]])  # adds a stranger
            if cur:
                cands.append([foreign[0]] + cur[1:])  # swaps a member for a stranger
        if attr == "pins" and kinds == "IO":
            # same list with one stored outer pin replaced by an equal-but-not-identical proxy
            for k, i in enumerate(cur):
                if w.kind[i] == "O" and w[i].instance is not None and w[i].inner_pin is not None:
                    c = list(cur)
                    c[k] = {"proxy": [w.idx(w[i].instance), w.idx(w[i].inner_pin)]}
                    cands.append(c)
                    break
        for c in cands:
            key = repr(c)
            if key not in seen:
                seen.add(key)
                yield {"list": c}
    else:
        raise ValueError(d)


# ------------------------------------------------------------------ the table
def _setattr(attr):
    def f(o, v):
        setattr(o, attr, v)
    return f


def _delattr(attr):
    def f(o):
        delattr(o, attr)
    return f


def _setitem(o, k, v):
    o[k] = v


def _delitem(o, k):
    del o[k]


def _clone_marked(o):
    """o.clone(), with every container of the copy tagged so findings on clones are told apart."""
    c = o.clone()
    stack = [c]
    while stack:
        x = stack.pop()
        x.__dict__["_vclone"] = True
        for attr in ("_libraries", "_definitions"):
            stack.extend(getattr(x, attr, ()))
    return c


NAMES = ("a", "A", "b")
FIRST = "NLDPCX"

OPS = {}


def _op(name, doms, fn, writes=()):
    OPS[name] = Op(name, doms, fn, writes)


def build_ops():
    if OPS:
        return OPS
    s = core.sdn()
    nm = ("name",)
    # constructors of orphans
    _op("new.netlist", [nm], lambda n: s.Netlist(name=n))
    _op("new.library", [nm], lambda n: s.Library(name=n))
    _op("new.definition", [nm], lambda n: s.Definition(name=n))
    _op("new.port", [nm], lambda n: s.Port(name=n))
    _op("new.cable", [nm], lambda n: s.Cable(name=n))
    _op("new.instance", [nm], lambda n: s.Instance(name=n))
    _op("new.wire", [], lambda: s.Wire())
    _op("new.innerpin", [], lambda: s.InnerPin())
    # netlist
    _op("netlist.create_library", ["N", nm], lambda n, name: n.create_library(name=name), ("_libraries", "_netlist"))
    _op("netlist.add_library", ["N", "L", ("pos",)], lambda n, l, p: n.add_library(l, p), ("_libraries", "_netlist"))
    _op("netlist.remove_library", ["N", "L"], lambda n, l: n.remove_library(l), ("_libraries", "_netlist"))
    _op("netlist.remove_libraries_from", ["N", ("subsets", "L", 2, "list")], lambda n, ls: n.remove_libraries_from(ls), ("_libraries", "_netlist"))
    _op("netlist.remove_libraries_from.set", ["N", ("subsets", "L", 2, "set")], lambda n, ls: n.remove_libraries_from(ls), ("_libraries", "_netlist"))
    _op("netlist.libraries=", ["N", ("reorder", "libraries", "L")], _setattr("libraries"), ("_libraries",))
    _op("netlist.top_instance=", ["N", "XD"], _setattr("top_instance"), ("_top_instance", "_is_top_instance", "_references", "_pins"))
    _op("netlist.top_instance=None", ["N"], lambda n: setattr(n, "top_instance", None), ("_top_instance", "_is_top_instance"))
    _op("netlist.set_top_instance", ["N", "XD"], lambda n, x: n.set_top_instance(x), ("_top_instance", "_references"))
    _op("netlist.set_top_instance.name", ["N", "XD", nm],
        lambda n, x, name: n.set_top_instance(x) if name is None else n.set_top_instance(x, instance_name=name),
        ("_top_instance", "_references", "_data"))
    # library
    _op("library.create_definition", ["L", nm], lambda l, name: l.create_definition(name=name), ("_definitions", "_library"))
    _op("library.add_definition", ["L", "D", ("pos",)], lambda l, d, p: l.add_definition(d, p), ("_definitions", "_library"))
    _op("library.remove_definition", ["L", "D"], lambda l, d: l.remove_definition(d), ("_definitions", "_library"))
    _op("library.remove_definitions_from", ["L", ("subsets", "D", 2, "list")], lambda l, ds: l.remove_definitions_from(ds), ("_definitions", "_library"))
    _op("library.remove_definitions_from.set", ["L", ("subsets", "D", 2, "set")], lambda l, ds: l.remove_definitions_from(ds), ("_definitions", "_library"))
    _op("library.definitions=", ["L", ("reorder", "definitions", "D")], _setattr("definitions"), ("_definitions",))
    # definition: ports
    _op("definition.create_port", ["D", nm, ("count",)], lambda d, name, pins: d.create_port(name=name, pins=pins), ("_ports", "_definition", "_pins"))
    _op("definition.add_port", ["D", "P", ("pos",)], lambda d, p, pos: d.add_port(p, pos), ("_ports", "_definition", "_pins"))
    _op("definition.remove_port", ["D", "P"], lambda d, p: d.remove_port(p), ("_ports", "_definition", "_pins", "_wire"))
    _op("definition.remove_ports_from", ["D", ("subsets", "P", 2, "list")], lambda d, ps: d.remove_ports_from(ps), ("_ports", "_definition", "_pins", "_wire"))
    _op("definition.remove_ports_from.set", ["D", ("subsets", "P", 2, "set")], lambda d, ps: d.remove_ports_from(ps), ("_ports", "_definition", "_pins", "_wire"))
    _op("definition.ports=", ["D", ("reorder", "ports", "P")], _setattr("ports"), ("_ports",))
    # definition: cables
    _op("definition.create_cable", ["D", nm, ("count",)], lambda d, name, wires: d.create_cable(name=name, wires=wires), ("_cables", "_definition", "_wires"))
    _op("definition.add_cable", ["D", "C", ("pos",)], lambda d, c, pos: d.add_cable(c, pos), ("_cables", "_definition"))
    _op("definition.remove_cable", ["D", "C"], lambda d, c: d.remove_cable(c), ("_cables", "_definition"))
    _op("definition.remove_cables_from", ["D", ("subsets", "C", 2, "list")], lambda d, cs: d.remove_cables_from(cs), ("_cables", "_definition"))
    _op("definition.remove_cables_from.set", ["D", ("subsets", "C", 2, "set")], lambda d, cs: d.remove_cables_from(cs), ("_cables", "_definition"))
    _op("definition.cables=", ["D", ("reorder", "cables", "C")], _setattr("cables"), ("_cables",))
    # definition: children
    _op("definition.create_child", ["D", nm, "D"], lambda d, name, ref: d.create_child(name=name, reference=ref), ("_children", "_parent", "_references", "_pins"))
    _op("definition.create_child.noref", ["D", nm], lambda d, name: d.create_child(name=name), ("_children", "_parent"))
    _op("definition.add_child", ["D", "X", ("pos",)], lambda d, x, pos: d.add_child(x, pos), ("_children", "_parent"))
    _op("definition.remove_child", ["D", "X"], lambda d, x: d.remove_child(x), ("_children", "_parent"))
    _op("definition.remove_children_from", ["D", ("subsets", "X", 2, "list")], lambda d, xs: d.remove_children_from(xs), ("_children", "_parent"))
    _op("definition.remove_children_from.set", ["D", ("subsets", "X", 2, "set")], lambda d, xs: d.remove_children_from(xs), ("_children", "_parent"))
    _op("definition.children=", ["D", ("reorder", "children", "X")], _setattr("children"), ("_children",))
    # port
    _op("port.create_pin", ["P"], lambda p: p.create_pin(), ("_pins", "_port"))
    _op("port.create_pins", ["P", ("lit", (1, 2))], lambda p, n: p.create_pins(n), ("_pins", "_port"))
    _op("port.add_pin", ["P", "I", ("pos",)], lambda p, i, pos: p.add_pin(i, pos), ("_pins", "_port"))
    _op("port.remove_pin", ["P", "I"], lambda p, i: p.remove_pin(i), ("_pins", "_port", "_wire"))
    _op("port.remove_pins_from", ["P", ("subsets", "I", 2, "list")], lambda p, xs: p.remove_pins_from(xs), ("_pins", "_port", "_wire"))
    _op("port.remove_pins_from.set", ["P", ("subsets", "I", 2, "set")], lambda p, xs: p.remove_pins_from(xs), ("_pins", "_port", "_wire"))
    _op("port.pins=", ["P", ("reorder", "pins", "I")], _setattr("pins"), ("_pins",))
    _op("port.direction=", ["P", ("lit", (0, 2, "out", "bogus"))], _setattr("direction"), ("_direction",))
    _op("bundle.is_downto=", ["PC", ("lit", (True, False))], _setattr("is_downto"), ("_is_downto",))
    _op("bundle.is_scalar=", ["PC", ("lit", (True, False))], _setattr("is_scalar"), ("_is_scalar",))
    _op("bundle.is_array=", ["PC", ("lit", (True, False))], _setattr("is_array"), ("_is_scalar",))
    _op("bundle.lower_index=", ["PC", ("lit", (0, 2))], _setattr("lower_index"), ("_lower_index",))
    # cable
    _op("cable.create_wire", ["C"], lambda c: c.create_wire(), ("_wires", "_cable"))
    _op("cable.create_wires", ["C", ("lit", (1, 2))], lambda c, n: c.create_wires(n), ("_wires", "_cable"))
    _op("cable.add_wire", ["C", "W", ("pos",)], lambda c, x, pos: c.add_wire(x, pos), ("_wires", "_cable"))
    _op("cable.remove_wire", ["C", "W"], lambda c, x: c.remove_wire(x), ("_wires", "_cable"))
    _op("cable.remove_wires_from", ["C", ("subsets", "W", 2, "list")], lambda c, xs: c.remove_wires_from(xs), ("_wires", "_cable"))
    _op("cable.remove_wires_from.set", ["C", ("subsets", "W", 2, "set")], lambda c, xs: c.remove_wires_from(xs), ("_wires", "_cable"))
    _op("cable.wires=", ["C", ("reorder", "wires", "W")], _setattr("wires"), ("_wires",))
    # wire
    _op("wire.connect_pin", ["W", ("pin",), ("pos",)], lambda x, p, pos: x.connect_pin(p, pos), ("_pins", "_wire"))
    _op("wire.disconnect_pin", ["W", ("pin",)], lambda x, p: x.disconnect_pin(p), ("_pins", "_wire"))
    _op("wire.disconnect_pins_from", ["W", ("subsets", "pin", 2, "list")], lambda x, ps: x.disconnect_pins_from(ps), ("_pins", "_wire"))
    _op("wire.disconnect_pins_from.set", ["W", ("subsets", "pin", 2, "set")], lambda x, ps: x.disconnect_pins_from(ps), ("_pins", "_wire"))
    _op("wire.disconnect_pins_from.held", ["W", ("held",)], lambda x, ps: x.disconnect_pins_from(ps), ("_pins", "_wire"))
    _op("wire.pins=", ["W", ("reorder", "pins", "IO")], _setattr("pins"), ("_pins",))
    # instance
    _op("instance.reference=", ["X", "D"], _setattr("reference"), ("_reference", "_references", "_pins", "_wire"))
    _op("instance.reference=None", ["X"], lambda x: setattr(x, "reference", None), ("_reference", "_references", "_pins", "_wire"))
    _op("instance.del_reference", ["X"], _delattr("reference"), ("_reference", "_references", "_pins", "_wire"))
    # the live view of the very collection that is being modified, as the argument (remove everything / keep order,
    # and the reversed view for the setters)
    for cont, kindc, attr, bulk, wr in (("netlist", "N", "libraries", "remove_libraries_from", ("_libraries", "_netlist")),
                                       ("library", "L", "definitions", "remove_definitions_from", ("_definitions", "_library")),
                                       ("definition", "D", "ports", "remove_ports_from", ("_ports", "_definition", "_pins")),
                                       ("definition", "D", "cables", "remove_cables_from", ("_cables", "_definition")),
                                       ("definition", "D", "children", "remove_children_from", ("_children", "_parent")),
                                       ("port", "P", "pins", "remove_pins_from", ("_pins", "_port", "_wire")),
                                       ("cable", "C", "wires", "remove_wires_from", ("_wires", "_cable")),
                                       ("wire", "W", "pins", "disconnect_pins_from", ("_pins", "_wire"))):
        _op("%s.%s.ownview" % (cont, bulk), [kindc], (lambda a, b: (lambda o: getattr(o, b)(getattr(o, a))))(attr, bulk), wr)
        _op("%s.%s=.ownview" % (cont, attr), [kindc], (lambda a: (lambda o: setattr(o, a, getattr(o, a))))(attr), wr[:1])
        _op("%s.%s=.reversed-ownview" % (cont, attr), [kindc], (lambda a: (lambda o: setattr(o, a, reversed(getattr(o, a)))))(attr), wr[:1])
    # reorder setters given a list object the caller keeps (and may hand to a second container)
    _op("cable.wires=.held", ["C", ("held",)], _setattr("wires"), ("_wires",))
    _op("port.pins=.held", ["P", ("held",)], _setattr("pins"), ("_pins",))
    _op("definition.cables=.held", ["D", ("held",)], _setattr("cables"), ("_cables",))
    _op("definition.ports=.held", ["D", ("held",)], _setattr("ports"), ("_ports",))
    _op("definition.children=.held", ["D", ("held",)], _setattr("children"), ("_children",))
    _op("library.definitions=.held", ["L", ("held",)], _setattr("definitions"), ("_definitions",))
    _op("netlist.libraries=.held", ["N", ("held",)], _setattr("libraries"), ("_libraries",))
    _op("wire.pins=.held", ["W", ("held",)], _setattr("pins"), ("_pins",))
    # compound constructors given a properties dictionary (an identifier, and a user key)
    def _props(v):
        return None if v is None else {"EDIF.identifier": v, "k": [v]}
    _op("netlist.create_library.props", ["N", nm, nm], lambda n, name, v: n.create_library(name=name, properties=_props(v)), ("_libraries", "_netlist", "_data"))
    _op("library.create_definition.props", ["L", nm, nm], lambda l, name, v: l.create_definition(name=name, properties=_props(v)), ("_definitions", "_library", "_data"))
    _op("definition.create_port.props", ["D", nm, nm], lambda d, name, v: d.create_port(name=name, properties=_props(v), pins=1), ("_ports", "_definition", "_pins", "_data"))
    _op("definition.create_cable.props", ["D", nm, nm], lambda d, name, v: d.create_cable(name=name, properties=_props(v), wires=1), ("_cables", "_definition", "_wires", "_data"))
    _op("definition.create_child.props", ["D", nm, nm], lambda d, name, v: d.create_child(name=name, properties=_props(v)), ("_children", "_parent", "_data"))
    # element data
    keys = ("key",)
    vals = ("lit", NAMES + ("1x",))
    _op("element.name=", [("elem",), ("lit", NAMES + (None,))], _setattr("name"), ("_data",))
    _op("element.del_name", [("elem",)], _delattr("name"), ("_data",))
    _op("element.setitem", [("elem",), keys, vals], _setitem, ("_data",))
    _op("element.delitem", [("elem",), keys], _delitem, ("_data",))
    _op("element.pop", [("elem",), keys], lambda o, k: o.pop(k), ("_data",))
    # the policy tag of an element (only an orphan root may change it; the whole tree below follows)
    _op("element.set_ns", [("elem",), ("lit", ("EDIF", "DEFAULT", "BOGUS"))], lambda o, v: _setitem(o, ".NS", v), ("_data",))
    # clone (used by C10/C07 tails)
    _op("clone", [("clonable",)], _clone_marked)
    return OPS


def transcript(history, seed_name):
    """Plain-text rendering of a history for replay files."""
    lines = ["# seed: %s" % seed_name]
    for name, args in history:
        lines.append("%s(%s)" % (name, ", ".join(_fmt(a) for a in args)))
    return lines


def _fmt(a):
    if a is None:
        return "None"
    if isinstance(a, int):
        return "pool[%d]" % a
    if "lit" in a:
        return repr(a["lit"])
    if "proxy" in a:
        return "OuterPin.from_instance_and_inner_pin(pool[%d], pool[%d])" % tuple(a["proxy"])
    if "list" in a:
        return "[" + ", ".join(_fmt(x) for x in a["list"]) + "]"
    if "gen" in a:
        return "(x for x in [" + ", ".join(_fmt(x) for x in a["gen"]) + "])"
    if "set" in a:
        return "{" + ", ".join(_fmt(x) for x in a["set"]) + "}"
    if "held" in a:
        return "held[%d]  # collection built by the seed" % a["held"]
    return repr(a)
