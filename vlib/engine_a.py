"""Engine A: explicit-state breadth-first search over histories of real API calls (DESIGN 2).

state   = real object graph rebuilt by replaying a history on fresh objects
dedup   = digest of the identity-level snapshot incl. the namespace manager's hidden tables
oracle  = state invariant in every state + step relation on every transition
"""
import time

from . import core, ops
from .world import World, snapshot

SCENARIOS = {}
ORACLES = {}


class Scenario:
    def __init__(self, name, seed, op_names, limits=None, depth=None, policy="DEFAULT", note=""):
        self.name = name
        self.seed = seed
        self.op_names = list(op_names)
        self.limits = limits or {}
        self.depth = depth or {"quick": 3, "thorough": 4}
        self.policy = policy
        self.note = note
        SCENARIOS[name] = self


class Oracle:
    """Base oracle: override what is needed.  All methods return lists of (clause, detail)."""

    def before_seed(self, scn):  # before the seed script runs (register listeners here)
        return None

    def begin(self, w, scn):  # after the seed is built, before the history is replayed
        return None

    def before_event(self, w, ev):  # right before every event of the history (incl. the last)
        return None

    def state(self, w):  # invariant on a state
        return []

    def pre(self, w, ev):  # token computed right before the last event
        return None

    def step(self, w, ev, outcome, token):  # relation on the last transition
        return []

    def nontrivial(self, w, ev, outcome):  # is the oracle's antecedent non-vacuous here?
        return True

    def end(self, w):
        return None


def outcome_of(fn):
    try:
        r = fn()
        return ("ok", None), r
    except Exception as e:  # every refusal is an outcome, never a harness error
        return ("raised", type(e).__name__), None


def build(scn, order, history, oracle=None, upto=None):
    """Fresh world: reset process state, run the seed, replay history[:upto]."""
    from spydrnet.plugins.namespace_manager import NamespaceManager

    core.reset_world()
    core.set_order(order)
    core.sdn().namespace_manager.default = scn.policy
    w = World()
    if oracle is not None:
        oracle.before_seed(scn)
    scn.seed(w)
    w.discover()
    if oracle is not None:
        oracle.begin(w, scn)
    table = ops.build_ops()
    hist = history if upto is None else history[:upto]
    for ev in hist:
        if oracle is not None:
            oracle.before_event(w, ev)
        apply_event(w, table, ev)
    return w


def apply_event(w, table, ev):
    name, args = ev
    op = table[name]
    out, ret = outcome_of(lambda: op.apply(w, args))
    w.discover(extra=[ret] if ret is not None else ())
    return out


def enabled(scn, w):
    table = ops.build_ops()
    for name in scn.op_names:
        for args in table[name].enum(w, scn.limits):
            yield [name, args]


def run_one(check_id, scn, order, hist, ev):
    """Execute hist then ev on a fresh world under the oracle; returns
    (outcome, digest, problems, nontrivial)."""
    oracle = ORACLES[check_id]()
    oracle.scn, oracle.order, oracle.hist = scn, order, hist
    w = build(scn, order, hist, oracle)
    table = ops.build_ops()
    problems = []
    if ev is None:
        outcome = ("seed", None)
        problems += oracle.state(w)
        nontriv = False
    else:
        oracle.before_event(w, ev)
        token = oracle.pre(w, ev)
        outcome = apply_event(w, table, ev)
        sp = oracle.state(w)
        stepres = oracle.step(w, ev, outcome, token)  # may rebuild the pre-state: w is stale afterwards
        nontriv = bool(oracle.nontrivial(w, ev, outcome))
        dig = core.digest(snapshot(w)) if not getattr(oracle, "stale", False) else oracle.digest
        if sp:
            # report only what this transition introduced (only one world is indexed at a time,
            # so this comes last)
            oracle2 = ORACLES[check_id]()
            oracle2.scn, oracle2.order, oracle2.hist = scn, order, hist
            w0 = build(scn, order, hist, oracle2)
            before = set(c for c, _ in oracle2.state(w0))
            oracle2.end(w0)
            sp = [p for p in sp if p[0] not in before]
        problems += sp
        problems += stepres
        oracle.end(w)
        return outcome, dig, problems, nontriv
    dig = core.digest(snapshot(w))
    oracle.end(w)
    return outcome, dig, problems, nontriv


def _expand(task):
    check_id, scn_name, order, hist = task
    scn = SCENARIOS[scn_name]
    w = build(scn, order, hist)
    events = list(enabled(scn, w))
    del w
    recs = []
    for ev in events:
        outcome, dig, problems, nontriv = run_one(check_id, scn, order, hist, ev)
        recs.append((ev, outcome, dig, problems or None, nontriv))
    return recs


def explore(check_id, scn, tier, cov, found, deadline=None, orders=core.ORDER_VARIANTS, depth=None,
            count="states"):
    """Breadth-first search of one scenario under each order variant.  Updates cov (Coverage) and
    found: signature -> dict(count, what, case)."""
    depth = depth or scn.depth[tier]
    outcomes = set()
    for order in orders:
        t0 = time.time()
        o, dig, problems, _ = run_one(check_id, scn, order, [], None)
        _record(check_id, scn, order, [], None, problems, found)
        seen = {dig}
        frontier = [[]]
        completed = 0
        states = 1
        trans = 0
        nontriv_states = 0
        nontriv_trans = 0
        capped = False
        for level in range(1, depth + 1):
            tasks = [(check_id, scn.name, order, h) for h in frontier]
            nxt = []
            for h, recs in zip(frontier, core.pimap(_expand, tasks)):
                for ev, outcome, dig, problems, nontriv in recs:
                    trans += 1
                    outcomes.add((ev[0], outcome))
                    if nontriv:
                        nontriv_trans += 1
                    if problems:
                        _record(check_id, scn, order, h, ev, problems, found)
                    if dig not in seen:
                        seen.add(dig)
                        states += 1
                        if nontriv:
                            nontriv_states += 1
                        nxt.append(h + [ev])
                        if len(nxt) % 997 == 1:
                            cov.sample({"scenario": scn.name, "order": order, "history": ops.transcript(h + [ev], scn.name)})
                if deadline is not None and time.time() > deadline:
                    capped = True
                    break
            if capped:
                break
            completed = level
            frontier = nxt
            if not frontier:
                completed = depth
                break
        cov.add("states", states)
        cov.add("transitions", trans)
        cov.add("traces_validated_against_impl", trans)
        cov.add("evaluations", trans)
        cov.add("distinct_nontrivial", nontriv_trans if count == "transitions" else nontriv_states)
        cov.add("nontrivial_transitions", nontriv_trans)
        cov["bounds_completed"]["%s/%s" % (scn.name, order)] = {
            "depth_requested": depth, "depth_completed": completed, "states": states,
            "transitions": trans, "wall_s": round(time.time() - t0, 2), "capped": capped,
        }
        if capped:
            cov["exhaustive"] = False
    cov["distinct_outcomes"] = cov.d.get("distinct_outcomes", 0) + len(outcomes)
    return outcomes


def _record(check_id, scn, order, hist, ev, problems, found):
    for clause, detail in problems:
        sig = "%s@%s" % (clause, ev[0] if ev else "seed:" + scn.name)
        f = found.get(sig)
        if f is None:
            found[sig] = {
                "count": 1, "what": detail,
                "case": {"engine": "A", "check": check_id, "scenario": scn.name, "order": order,
                         "history": hist, "event": ev,
                         "transcript": ops.transcript(hist + ([ev] if ev else []), scn.name)},
            }
        else:
            f["count"] += 1


def replay_case(case):
    """Re-run one recorded case without the explorer; returns sorted list of signatures."""
    if case["scenario"] not in SCENARIOS:
        from . import scenarios
        scenarios.naming_scenarios()   # (the naming scopes register themselves when first asked for)
    scn = SCENARIOS[case["scenario"]]
    ev = case["event"]
    outcome, dig, problems, _ = run_one(case["check"], scn, case["order"], case["history"], ev)
    sigs = sorted(set("%s@%s" % (c, ev[0] if ev else "seed:" + scn.name) for c, _ in problems))
    return {"outcome": list(outcome), "digest": dig, "signatures": sigs,
            "details": sorted(set(d for _, d in problems))}
