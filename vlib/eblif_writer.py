"""Independent EBLIF writer for abstract flat designs + the pin-set model the reader must
reproduce (shares no code with the repository's composer).

EAD = {"name": top model name, "inputs": [net...], "outputs": [net...],
       "items": [ {"kind": "subckt"|"gate", "model", "conns": [[formal, actual]...], "cname": str|None,
                   "attr": {k: v}, "param": {k: v}}
                | {"kind": "names", "ins": [net...], "out": net, "covers": [str...], "cname": ...}
                | {"kind": "latch", "in", "out", "type", "ctrl", "init", "cname": ...}
                | {"kind": "conn", "a": net, "b": net} ],
       "models": [{"name", "inputs": [...], "outputs": [...]}]}         # black boxes
net / formal = "name" or "name[i]"
"""
import re

_IDX = re.compile(r"^(.*)\[(\d+)\]$")


def split(s):
    m = _IDX.match(s)
    return (m.group(1), int(m.group(2))) if m else (s, 0)


def render(ead, order=None, continuation=None, comments=False, models="after", reverse_conns=False):
    """order: permutation of item indices; continuation: break lines after that many tokens;
    models: 'before' | 'after' | 'none' (black boxes never declared)."""
    lines = []

    def emit(tokens):
        if continuation == "lone" and len(tokens) > 3:
            # a continued line that holds nothing but the continuation character
            lines.append(" ".join(tokens[:3]) + " \\")
            lines.append("\\")
            lines.append(" " + " ".join(tokens[3:]))
        elif continuation and continuation not in ("lone", "split") and len(tokens) > continuation:
            lines.append(" ".join(tokens[:continuation]) + " \\")
            lines.append(" " + " ".join(tokens[continuation:]))
        else:
            lines.append(" ".join(tokens))

    def port_lines(kw, names):
        # "split": the list spread over several statements of the same kind
        if continuation == "split" and len(names) > 1:
            return ["%s %s" % (kw, nm) for nm in names]
        return None

    def model_text(m):
        out = [".model " + m["name"]]
        out += port_lines(".inputs", m["inputs"]) or [".inputs " + " ".join(m["inputs"])]
        out += port_lines(".outputs", m["outputs"]) or [".outputs " + " ".join(m["outputs"])]
        return out + [".blackbox", ".end", ""]

    if comments:
        lines.append("# written by the independent writer")
    if models == "before":
        for m in ead.get("models", ()):
            lines += model_text(m)
    lines.append(".model " + ead["name"])
    for kw, names in ((".inputs", list(ead["inputs"])), (".outputs", list(ead["outputs"]))):
        split = port_lines(kw, names)
        if split:
            lines.extend(split)
        else:
            emit([kw] + names)
    if ead.get("clock"):
        emit([".clock"] + list(ead["clock"]))
    items = ead["items"]
    for i in (order if order is not None else range(len(items))):
        it = items[i]
        if comments:
            lines.append("# item %d" % i)
        k = it["kind"]
        if k in ("subckt", "gate"):
            conns = list(reversed(it["conns"])) if reverse_conns else it["conns"]
            emit(["." + k, it["model"]] + ["%s=%s" % (f, a) for f, a in conns])
        elif k == "names":
            emit([".names"] + list(it["ins"]) + [it["out"]])
            for c in it.get("covers", ()):
                lines.append(c)
        elif k == "latch":
            emit([".latch", it["in"], it["out"]] + ([it["type"], it["ctrl"]] if it.get("type") is not None else []) +
                 ([str(it["init"])] if it.get("init") is not None else []))
        elif k == "conn":
            emit([".conn", it["a"], it["b"]])
            continue
        if comments:
            lines.append("# a comment between the statement and the data that belongs to it")
        if it.get("cname"):
            lines.append(".cname " + it["cname"])
        for kk, v in (it.get("attr") or {}).items():
            lines.append(".attr %s %s" % (kk, v))
        for kk, v in (it.get("param") or {}).items():
            lines.append(".param %s %s" % (kk, v))
    lines.append(".end")
    lines.append("")
    if models == "after":
        for m in ead.get("models", ()):
            lines += model_text(m)
    return "\n".join(lines) + "\n"


def expected(ead, models="after", order=None):
    """instances {cname: (model, type, attr, param, covers)}, partition of pins into nets, top ports.
    An instance without .cname gets the placeholder name <model>@nameless<k> (the name the reader gives it is
    not specified): ecanon.match_nameless tries every assignment of the reader's names to the placeholders."""
    parent = {}

    def find(x):
        parent.setdefault(x, x)
        while parent[x] != x:
            parent[x] = parent[parent[x]]
            x = parent[x]
        return x

    def union(a, b):
        parent[find(a)] = find(b)

    pins = {}  # net bit -> set of pins
    def attach(net, pin):
        if split(net)[0] == "unconn":
            return
        pins.setdefault(split(net), set()).add(pin)
        find(split(net))

    ports = {}
    for direction, names in (("in", ead["inputs"]), ("out", ead["outputs"])):
        for nm in names:
            base, idx = split(nm)
            ports.setdefault(base, [direction, 0])
            if ports[base][0] != direction:
                ports[base][0] = "inout"   # listed under .inputs and under .outputs
            ports[base][1] = max(ports[base][1], idx + 1)
            attach(nm, ("P", base, idx))
    insts = {}
    nameless = {}
    seq = [ead["items"][i] for i in order] if order is not None else list(ead["items"])
    for it in seq:
        k = it["kind"]
        if k == "conn":
            find(split(it["a"])); find(split(it["b"]))
            union(split(it["a"]), split(it["b"]))
            continue
        name = it.get("cname")
        if name is None:
            assert k in ("subckt", "gate")
            name = "%s@nameless%d" % (it["model"], nameless.get(it["model"], 0))
            nameless[it["model"]] = nameless.get(it["model"], 0) + 1
        if k in ("subckt", "gate"):
            insts[name] = (it["model"], "EBLIF." + k, dict(it.get("attr") or {}), dict(it.get("param") or {}), None)
            for f, a in it["conns"]:
                fb, fi = split(f)
                attach(a, ("I", name, fb, fi))
        elif k == "names":
            insts[name] = ("logic-gate_%d" % len(it["ins"]), "EBLIF.names", {}, {}, tuple(it.get("covers", ())))
            for i, a in enumerate(it["ins"]):
                attach(a, ("I", name, "in_%d" % i, 0))
            attach(it["out"], ("I", name, "out", 0))
        elif k == "latch":
            insts[name] = ("generic-latch", "EBLIF.latch", {}, {}, None)
            fields = [("input", it["in"]), ("output", it["out"])]
            if it.get("type") is not None:
                fields += [("type", it["type"]), ("control", it["ctrl"])]
                if it.get("init") is not None:
                    fields.append(("init-val", str(it["init"])))
            for f, a in fields:
                attach(a, ("I", name, f, 0))
    classes = {}
    for bit, ps in pins.items():
        classes.setdefault(find(bit), set()).update(ps)
    part = set(frozenset(v) for v in classes.values() if v)
    prim = {}
    if models != "none":
        for m in ead.get("models", ()):
            pp = {}
            for direction, names in (("in", m["inputs"]), ("out", m["outputs"])):
                for nm in names:
                    base, idx = split(nm)
                    pp.setdefault(base, [direction, 0])
                    pp[base][1] = max(pp[base][1], idx + 1)
            prim[m["name"]] = {k: tuple(v) for k, v in pp.items()}
    # black boxes that are never declared: ports and widths follow from the uses (unconn bits included)
    declared = set(prim)
    inferred = {}
    for it in ead["items"]:
        if it["kind"] in ("subckt", "gate") and it["model"] not in declared:
            pp = inferred.setdefault(it["model"], {})
            for f, a in it["conns"]:
                fb, fi = split(f)
                pp[fb] = max(pp.get(fb, 0), fi + 1)
    return {"insts": insts, "nets": part, "ports": {k: tuple(v) for k, v in ports.items()}, "primitives": prim,
            "inferred": inferred, "clock": list(ead.get("clock") or [])}
